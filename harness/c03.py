"""C03 correspondence: cut_wires, _transform_cuts_to_moves (+ expand_observables on their output)
vs Model/CutWires.v, and the property-level oracle (independent numpy branch simulator).

Program (JSON, re-executable):
  {"qspec": [["reg", name, size] | ["loose", n] | ["alias", name, [qubit indices]] ...],
   "cspec": [["reg", name, size] | ["loose", n] ...],
   "instrs": [[name, [params], [qubit indices], [clbit indices]] ...]}
  names: standard gate names, "cut_wire", "measure", "reset", "barrier", "move", "qpd_cx",
         "m2" (opaque Instruction on 2 qubits and 2 clbits), "x_if" (x conditioned on clbit params[0] == params[1]).
   optional: "pre_call": k   the function is called once (result dropped) when only the first k instructions exist,
                             the rest is appended to the SAME circuit object, then the recorded call is made
             "nested": true  the recorded call is fn(fn(circuit)): its input is the first call's output
             "e2e": true     cut_wires -> expand_observables -> partition_problem -> generate_cutting_experiments(inf)
                             -> ExactSampler -> reconstruct_expectation_values is run as well (clause f)
"""
from __future__ import annotations

import itertools
import json

import numpy as np
from qiskit.circuit import QuantumCircuit, QuantumRegister, ClassicalRegister, Qubit, Clbit, Instruction
from qiskit.circuit import library as lib
from qiskit.quantum_info import Pauli, PauliList

from qiskit_addon_cutting.instructions import CutWire, Move
from qiskit_addon_cutting.qpd import QPDBasis, TwoQubitQPDGate
from qiskit_addon_cutting.wire_cutting_transforms import cut_wires, _transform_cuts_to_moves, expand_observables
from qiskit_addon_cutting import partition_problem, generate_cutting_experiments, reconstruct_expectation_values
from qiskit_addon_cutting.utils.simulation import ExactSampler

from common import CaseWriter, Res, Raw, Interner, call_canon, Qc
from circ import CircCtx, coq_circ

IMPORTS = ("From Coq Require Import QArith.\nClose Scope Q_scope.\n"
           "From CKT Require Import Common.Base Common.Circ Model.Observables Model.CutWires Corr.C03Corr.")
FUNCS = {"cut_wires": cut_wires, "moves": _transform_cuts_to_moves}

GATES = {
    "h": lib.HGate, "x": lib.XGate, "y": lib.YGate, "z": lib.ZGate, "s": lib.SGate, "sdg": lib.SdgGate,
    "t": lib.TGate, "tdg": lib.TdgGate, "sx": lib.SXGate, "rx": lib.RXGate, "ry": lib.RYGate, "rz": lib.RZGate,
    "p": lib.PhaseGate, "cx": lib.CXGate, "cz": lib.CZGate, "swap": lib.SwapGate, "rzz": lib.RZZGate,
    "rxx": lib.RXXGate, "crx": lib.CRXGate, "ch": lib.CHGate, "ccx": lib.CCXGate,
}
LET = {(False, False): 0, (True, False): 1, (True, True): 2, (False, True): 3}
LETTERS = "IXYZ"


# ----------------------------------------------------------------------------------------------
# programs <-> circuits
# ----------------------------------------------------------------------------------------------

def prog_nq(prog):
    return sum(s[2] if s[0] == "reg" else s[1] for s in prog["qspec"] if s[0] in ("reg", "loose"))


def prog_nc(prog):
    return sum(s[2] if s[0] == "reg" else s[1] for s in prog["cspec"])


def append_instrs(qc, instrs):
    for name, params, qs, cs in instrs:
        if name == "cut_wire":
            qc.append(CutWire(), qs)
        elif name == "measure":
            qc.measure(qs[0], cs[0])
        elif name == "reset":
            qc.reset(qs[0])
        elif name == "barrier":
            qc.barrier(*qs)
        elif name == "move":
            qc.append(Move(), qs)
        elif name == "qpd_cx":
            qc.append(TwoQubitQPDGate.from_instruction(lib.CXGate()), qs)
        elif name == "m2":
            qc.append(Instruction("m2", 2, 2, []), qs, cs)
        elif name == "x_if":
            qc.x(qs[0]).c_if(qc.clbits[int(params[0])], int(params[1]))
        else:
            qc.append(GATES[name](*params), qs)


def build_circuit(prog, upto=None):
    qc = QuantumCircuit()
    for s in prog["qspec"]:
        if s[0] == "reg":
            qc.add_register(QuantumRegister(s[2], s[1]))
        elif s[0] == "loose":
            qc.add_bits([Qubit() for _ in range(s[1])])
    for s in prog["qspec"]:
        if s[0] == "alias":  # a second register over already present qubits
            qc.add_register(QuantumRegister(name=s[1], bits=[qc.qubits[i] for i in s[2]]))
    for s in prog["cspec"]:
        if s[0] == "reg":
            qc.add_register(ClassicalRegister(s[2], s[1]))
        else:
            qc.add_bits([Clbit() for _ in range(s[1])])
    append_instrs(qc, prog["instrs"] if upto is None else prog["instrs"][:upto])
    return qc


def canon_pauli(p):
    return [int(p.phase), [LET[(bool(a), bool(b))] for a, b in zip(p.x, p.z)]]


def mk_pauli(phase, lets):
    p = Pauli("".join(LETTERS[l] for l in reversed(lets)))
    p.phase = phase
    return p


def coq_pauli(c):
    return Raw(f"(P {c[0]} [{'; '.join(str(l) for l in c[1])}])")


class Canon:
    """Per-case canonicaliser: qubit/clbit identity tags, register names, gate ids."""

    def __init__(self, qc):
        self.ctx = CircCtx()
        self.move_basis = self.ctx.basis_id(QPDBasis.from_instruction(Move()))
        self.cut_move_label = self.ctx.qlabel("cut_move")
        self.qids = Interner()
        self.cids = Interner()
        self.names = Interner()
        for q in qc.qubits:
            self.qids(q)
        for c in qc.clbits:
            self.cids(c)

    def circuit(self, qc):
        data = self.ctx.canon_circuit(qc)
        for d, inst in zip(data, qc.data):
            if d["op"][0] == "qpd2" and d["op"][1] == self.move_basis:
                d["as"] = "move"  # a Move wrapped for cutting: executed as a Move by the oracle
            cond = getattr(inst.operation, "condition", None)
            if cond is not None and d["op"][0] == "gate":
                # a condition is part of the operation: fold it into the interned gate id
                tgt = ["clbit", self.cids(cond[0])] if isinstance(cond[0], Clbit) else ["creg", cond[0].name, [self.cids(c) for c in cond[0]]]
                key = json.dumps([tgt, int(cond[1])])
                d["op"] = ["gate", self.ctx.gates(("cond", d["op"][1], key)), d["op"][2] + "?" + key, d["op"][3]]
        return dict(
            qubits=[self.qids(q) for q in qc.qubits],
            qregs=[[self.names(("q", r.name)), [self.qids(q) for q in r]] for r in qc.qregs],
            nc=qc.num_clbits,
            # the identity order of circuit.clbits is carried as a pseudo register in front
            cregs=[[self.names(("c", "<clbits>")), [self.cids(c) for c in qc.clbits]]]
            + [[self.names(("c", r.name)), [self.cids(c) for c in r]] for r in qc.cregs],
            qreg_names=[[r.name, r.size] for r in qc.qregs],
            creg_names=[[r.name, r.size] for r in qc.cregs],
            data=data,
        )

    def factory(self, fn):
        if fn == "moves":
            return Raw("Move")
        l = self.cut_move_label
        return Raw(f"(Qpd2 {self.move_basis} None (Some ({l[0]}, None)))")


def coq_regs(regs):
    return [(r[0], list(r[1])) for r in regs]


def coq_result(c):
    return Raw("(mkCR " + " ".join(
        [_c(list(c["qubits"])), _c(coq_regs(c["qregs"])), str(c["nc"]), _c(coq_regs(c["cregs"])), _c(coq_circ(c["data"]))]) + ")")


def _c(v):
    from common import coq
    return coq(v)


def run_e2e(qc, out, paulis):
    """clause f: cut the inserted Moves and reconstruct with exact weights."""
    obs = PauliList([mk_pauli(0, lets) for _, lets in paulis])
    ex = expand_observables(obs, qc, out)
    prob = partition_problem(out, observables=ex)
    subexps, coeffs = generate_cutting_experiments(prob.subcircuits, prob.subobservables, np.inf)
    sampler = ExactSampler()
    results = {lab: sampler.run(c).result() for lab, c in subexps.items()}
    vals = reconstruct_expectation_values(results, coeffs, prob.subobservables)
    return dict(values=[float(v) for v in vals],
                partitions={str(k): v.num_qubits for k, v in prob.subcircuits.items()},
                subexperiments=sum(len(c) for c in subexps.values()))


def run_case(prog, fn, paulis):
    """Execute the implementation; return the JSON case (input, recorded output, expanded paulis)."""
    if prog.get("pre_call") is not None:
        k = prog["pre_call"]
        qc = build_circuit(prog, upto=k)
        call_canon(FUNCS[fn], qc)  # history: an earlier call on the same object, result dropped
        append_instrs(qc, prog["instrs"][k:])
    else:
        qc = build_circuit(prog)
    if prog.get("nested"):
        first = call_canon(FUNCS[fn], qc)  # history: the input is itself a result
        if first[0] != "ok":
            cn = Canon(qc)
            return dict(kind="cut", fn=fn, prog=prog, input=cn.circuit(qc), paulis=None, factory=cn.factory(fn).s,
                        impl=[first[0], "first call of the nested pair: " + str(first[1])], expanded=None), cn
        qc = first[1]
    cn = Canon(qc)
    cin = cn.circuit(qc)
    r = call_canon(FUNCS[fn], qc)
    case = dict(kind="cut", fn=fn, prog=prog, input=cin, paulis=paulis,
                factory=cn.factory(fn).s)
    if r[0] == "ok":
        out = r[1]
        case["impl"] = ["ok", cn.circuit(out)]
        if paulis is not None:
            pl = PauliList([mk_pauli(ph, lets) for ph, lets in paulis])
            e = call_canon(expand_observables, pl, qc, out)
            case["expanded"] = [e[0], [canon_pauli(p) for p in e[1]] if e[0] == "ok" else e[1]]
            if prog.get("e2e") and fn == "cut_wires":
                e2 = call_canon(run_e2e, qc, out, paulis)
                case["e2e"] = [e2[0], e2[1]]
    else:
        case["impl"] = [r[0], r[1]]
        case["expanded"] = None
    return case, cn


def uncut_values(case):
    """<P> of the input circuit with markers ignored, by the independent simulator; None if not simulable"""
    cin = case["input"]
    o1 = _ops_from_canon(cin["data"])
    if o1 is None or case.get("paulis") is None:
        return None
    b1 = simulate(len(cin["qubits"]), cin["nc"], o1)
    return [complex(sum(e for _, e in pauli_stats(b1, ph, lets).values())).real for ph, lets in case["paulis"]]


def pack(case):
    """Stored form of a case: the re-executable input in clear, the recorded canonical data as one JSON string
    (json.dump of deeply nested lists is the dominant cost of the harness otherwise)."""
    rest = {k: v for k, v in case.items() if k not in ("kind", "fn", "prog", "paulis")}
    return dict(kind=case["kind"], fn=case["fn"], prog=case["prog"], paulis=case.get("paulis"), recorded=json.dumps(rest))


def unpack(case):
    if "recorded" in case:
        c = dict(case)
        c.update(json.loads(c.pop("recorded")))
        return c
    return case


def emit(w, stream, case, cn, nontrivial, with_expand=True):
    cin = case["input"]
    impl = case["impl"]
    exp = Res("ok", coq_result(impl[1])) if impl[0] == "ok" else Res(impl[0])
    w.add(f"{stream}.cut", "chk_cut",
          (cn.factory(case["fn"]), len(cin["qubits"]), cin["nc"], coq_regs(cin["qregs"]), coq_regs(cin["cregs"]),
           coq_circ(cin["data"]), exp),
          pack(case), nontrivial=nontrivial)
    if "e2e" in case:
        e2 = case["e2e"]
        un = uncut_values(case)
        if e2[0] == "ok" and un is not None and len(un) == len(e2[1]["values"]):
            val = Res("ok", [(Qc(v), Qc(u)) for v, u in zip(e2[1]["values"], un)])
        else:
            val = Res(e2[0] if e2[0] != "ok" else "crashed")
        w.add(f"{stream}.reconstruct", "chk_e2e", val, pack(dict(case, kind="reconstruct")), nontrivial=nontrivial,
              key=json.dumps(case["prog"]))
    if with_expand and case.get("paulis") is not None and case.get("expanded") is not None:
        e = case["expanded"]
        eexp = Res("ok", [coq_pauli(c) for c in e[1]]) if e[0] == "ok" else Res(e[0])
        w.add(f"{stream}.expand", "chk_cut_expand",
              (len(cin["qubits"]), coq_circ(cin["data"]), [coq_pauli(c) for c in case["paulis"]], eexp),
              pack(dict(case, kind="expand")), nontrivial=nontrivial)


# ----------------------------------------------------------------------------------------------
# generators
# ----------------------------------------------------------------------------------------------

def all_paulis(n):
    return [[0, list(l)] for l in itertools.product(range(4), repeat=n) if any(l)]


def weight1_paulis(n):
    out = []
    for q in range(n):
        for l in (1, 2, 3):
            lets = [0] * n
            lets[q] = l
            out.append([0, lets])
    return out


def rand_paulis(rng, n, k, phases=True):
    out = []
    for j in range(k):
        lets = [int(rng.integers(0, 4)) for _ in range(n)]
        if j == 0:  # one full-weight string so that every wire is read
            lets = [int(rng.integers(1, 4)) for _ in range(n)]
        out.append([int(rng.integers(0, 4)) if phases else 0, lets])
    return out


def pick_paulis(rng, n):
    """observable list of a generated case: all 4^n - 1 for n <= 2 (sometimes), all weight-1 strings,
    1..3 random ones with phases; a single-observable list occurs too"""
    r = int(rng.integers(0, 10))
    if n <= 2 and r < 4:
        ps = all_paulis(n)
        ps[int(rng.integers(0, len(ps)))][0] = int(rng.integers(0, 4))
        return ps
    if r < 6:
        return weight1_paulis(n) + rand_paulis(rng, n, 1)
    return rand_paulis(rng, n, int(rng.integers(1, 4)))


def rand_qspec(rng, n, empties=False):
    spec = []
    left = n
    ri = 0
    while left > 0:
        if empties and rng.integers(0, 3) == 0:
            spec.append(["reg", f"e{ri}", 0])
            ri += 1
        s = int(rng.integers(1, left + 1))
        if rng.integers(0, 3) == 0:
            spec.append(["loose", s])
        else:
            spec.append(["reg", f"r{ri}", s])
            ri += 1
        left -= s
    if empties and rng.integers(0, 2) == 0:
        spec.append(["reg", f"e{ri}", 0])
    return spec


def rand_cspec(rng, allow=True, rich=False):
    spec = []
    if not allow or (not rich and rng.integers(0, 2) == 0):
        return spec
    for i in range(int(rng.integers(2, 5)) if rich else int(rng.integers(0, 3))):
        spec.append(["reg", f"c{i}", int(rng.integers(0 if rich else 1, 3))])
    if rng.integers(0, 2):
        spec.append(["loose", int(rng.integers(1, 3))])
    if rich and prog_nc(dict(cspec=spec)) < 2:
        spec.append(["reg", "cz", 2])
    return spec


ANGLES = [0.3, 0.7, 1.1, 1.9, 2.3, -0.9]


def rand_gate(rng, n):
    r = int(rng.integers(0, 10))
    if n >= 3 and r == 0:
        qs = [int(q) for q in rng.permutation(n)[:3]]
        return ["ccx", [], qs, []]
    if n >= 2 and r < 5:
        qs = [int(q) for q in rng.permutation(n)[:2]]
        name = ["cx", "cz", "rzz", "crx", "swap", "ch", "rxx"][int(rng.integers(0, 7))]
        params = [ANGLES[int(rng.integers(0, len(ANGLES)))]] if name in ("rzz", "crx", "rxx") else []
        return [name, params, qs, []]
    name = ["h", "sx", "t", "s", "x", "rx", "ry", "rz", "y", "tdg"][int(rng.integers(0, 10))]
    params = [ANGLES[int(rng.integers(0, len(ANGLES)))]] if name in ("rx", "ry", "rz") else []
    return [name, params, [int(rng.integers(0, n))], []]


EXH5 = [["ry", [0.7], [0], []], ["rx", [1.1], [1], []], ["cx", [], [0, 1], []],
        ["cut_wire", [], [0], []], ["cut_wire", [], [1], []]]
EXH6 = EXH5 + [["measure", [], [0], [1]]]


def gen_exhaustive(maxlen, maxlen6):
    """all programs up to maxlen over the 5 gate/marker letters; up to maxlen6 also with `measure 0 -> c[1]`"""
    for L in range(0, maxlen + 1):
        for p in itertools.product(range(6 if L <= maxlen6 else 5), repeat=L):
            if 5 in p:
                yield dict(qspec=[["reg", "q", 2]], cspec=[["reg", "c", 2]], instrs=[EXH6[i] for i in p])
            else:
                yield dict(qspec=[["reg", "q", 2]], cspec=[], instrs=[EXH5[i] for i in p])


def gen_skeletons(rng):
    for n in range(1, 5):
        for k in range(0, 5):
            for seq in itertools.product(range(n), repeat=k):
                cspec = rand_cspec(rng, allow=bool(rng.integers(0, 2)))
                nc = prog_nc(dict(cspec=cspec))
                instrs = []
                if rng.integers(0, 10) < 7:
                    for q in range(n):
                        instrs.append(["ry", [0.4 + 0.5 * q], [q], []])
                budget = [2]

                def filler():
                    for _ in range(int(rng.integers(0, 3))):
                        if nc > 0 and budget[0] > 0 and rng.integers(0, 4) == 0:
                            budget[0] -= 1
                            instrs.append(["measure", [], [int(rng.integers(0, n))], [int(rng.integers(0, nc))]])
                        else:
                            instrs.append(rand_gate(rng, n))
                for q in seq:
                    filler()
                    instrs.append(["cut_wire", [], [q], []])
                filler()
                yield dict(qspec=rand_qspec(rng, n), cspec=cspec, instrs=instrs)


def gen_random(rng):
    n = int(rng.integers(1, 5))
    prog = dict(qspec=rand_qspec(rng, n), cspec=rand_cspec(rng), instrs=[])
    nc = prog_nc(prog)
    L = int(rng.integers(3, 15))
    markers = 0
    maxm = int(rng.integers(0, 5))
    branching = 0
    cutq = []
    for _ in range(L):
        r = int(rng.integers(0, 20))
        if r < 6 and markers < maxm:
            # bias towards re-cutting an already cut qubit after another qubit has been cut
            again = [q for q in cutq[:-1] if q != cutq[-1]]
            q = int(again[int(rng.integers(0, len(again)))]) if again and rng.integers(0, 2) else int(rng.integers(0, n))
            prog["instrs"].append(["cut_wire", [], [q], []])
            cutq.append(q)
            markers += 1
        elif r in (6, 10) and nc > 0 and branching < 3:
            prog["instrs"].append(["measure", [], [int(rng.integers(0, n))], [int(rng.integers(0, nc))]])
            branching += 1
        elif r == 7 and branching < 3:
            prog["instrs"].append(["reset", [], [int(rng.integers(0, n))], []])
            branching += 1
        elif r == 8:
            m = int(rng.integers(1, n + 1))
            prog["instrs"].append(["barrier", [], [int(q) for q in rng.permutation(n)[:m]], []])
        elif r == 9 and n >= 2 and branching < 3:
            prog["instrs"].append(["move", [], [int(q) for q in rng.permutation(n)[:2]], []])
            branching += 1
        else:
            prog["instrs"].append(rand_gate(rng, n))
    return prog


def gen_opaque(rng):
    """operations the simulator cannot execute: two-clbit instruction with non-ascending clbits, conditional gates,
    barriers on permuted subsets, pre-placed gate cuts; empty registers, three and more classical registers"""
    n = int(rng.integers(2, 5))
    prog = dict(qspec=rand_qspec(rng, n, empties=True), cspec=rand_cspec(rng, rich=True), instrs=[])
    nc = prog_nc(prog)
    markers = 0
    for _ in range(int(rng.integers(3, 11))):
        r = int(rng.integers(0, 12))
        if r < 4 and markers < 4:
            prog["instrs"].append(["cut_wire", [], [int(rng.integers(0, n))], []])
            markers += 1
        elif r < 6:
            qs = [int(q) for q in rng.permutation(n)[:2]]
            cs = [int(c) for c in rng.permutation(nc)[:2]]
            if rng.integers(0, 2) and cs[0] < cs[1]:
                cs = cs[::-1]
            prog["instrs"].append(["m2", [], qs, cs])
        elif r < 8:
            prog["instrs"].append(["x_if", [int(rng.integers(0, nc)), int(rng.integers(0, 2))], [int(rng.integers(0, n))], []])
        elif r == 8:
            m = int(rng.integers(1, n + 1))
            prog["instrs"].append(["barrier", [], [int(q) for q in rng.permutation(n)[:m]], []])
        elif r == 9:
            prog["instrs"].append(["qpd_cx", [], [int(q) for q in rng.permutation(n)[:2]], []])
        else:
            prog["instrs"].append(rand_gate(rng, n))
    return prog


def gen_hist(rng):
    """histories: an earlier call on the same circuit object / the result fed back in"""
    n = int(rng.integers(1, 4))
    prog = dict(qspec=rand_qspec(rng, n), cspec=[], instrs=[["ry", [0.4 + 0.5 * q], [q], []] for q in range(n)])
    for _ in range(int(rng.integers(1, 4))):
        for _ in range(int(rng.integers(0, 3))):
            prog["instrs"].append(rand_gate(rng, n))
        prog["instrs"].append(["cut_wire", [], [int(rng.integers(0, n))], []])
    prog["instrs"].append(rand_gate(rng, n))
    if rng.integers(0, 3) == 0:
        prog["nested"] = True
    else:
        # the earlier call sees a strict prefix; at least one marker and one gate are appended afterwards
        cuts = [i for i, ins in enumerate(prog["instrs"]) if ins[0] == "cut_wire"]
        prog["pre_call"] = int(rng.integers(n, cuts[-1] + 1))
    return prog


def gen_e2e(rng):
    """small circuits without classical bits, 1..2 markers, for cut-and-reconstruct"""
    n = int(rng.integers(1, 4))
    prog = dict(qspec=rand_qspec(rng, n), cspec=[], instrs=[["ry", [0.4 + 0.5 * q], [q], []] for q in range(n)], e2e=True)
    for _ in range(int(rng.integers(1, 3))):
        for _ in range(int(rng.integers(1, 3))):
            prog["instrs"].append(rand_gate(rng, n))
        prog["instrs"].append(["cut_wire", [], [int(rng.integers(0, n))], []])
    for _ in range(int(rng.integers(1, 3))):
        prog["instrs"].append(rand_gate(rng, n))
    return prog


def gen_edge(rng):
    cut = lambda q: ["cut_wire", [], [q], []]  # noqa: E731
    yield dict(qspec=[], cspec=[], instrs=[])
    yield dict(qspec=[], cspec=[["reg", "c", 2]], instrs=[])
    yield dict(qspec=[["loose", 1]], cspec=[], instrs=[])
    yield dict(qspec=[["loose", 1]], cspec=[], instrs=[cut(0)])
    yield dict(qspec=[["loose", 1]], cspec=[], instrs=[cut(0), cut(0), cut(0), cut(0)])
    yield dict(qspec=[["loose", 2], ["reg", "a", 1]], cspec=[["loose", 2]],
               instrs=[cut(2), ["measure", [], [2], [1]], cut(0), cut(2), ["h", [], [2], []], ["measure", [], [0], [0]]])
    # markers first / last on a wire
    yield dict(qspec=[["reg", "a", 2]], cspec=[], instrs=[cut(0), ["h", [], [0], []], ["cx", [], [0, 1], []], cut(1)])
    # overlapping registers
    yield dict(qspec=[["reg", "a", 3], ["alias", "b", [2, 0]]], cspec=[],
               instrs=[["h", [], [0], []], cut(0), ["cx", [], [0, 2], []], cut(2), cut(0), ["x", [], [1], []]])
    yield dict(qspec=[["reg", "a", 2], ["loose", 1], ["alias", "b", [1, 2]], ["alias", "c", [0, 1, 2]]], cspec=[],
               instrs=[["ry", [0.6], [1], []], cut(1), ["cx", [], [1, 2], []], cut(2), cut(1), ["cx", [], [2, 0], []]])
    # pre-placed gate cut and a labelled barrier travel along
    yield dict(qspec=[["reg", "a", 2], ["reg", "b", 1]], cspec=[],
               instrs=[["h", [], [0], []], ["qpd_cx", [], [0, 1], []], cut(1), ["barrier", [], [0, 1, 2], []],
                       ["qpd_cx", [], [1, 2], []], cut(0), cut(1)])
    # the DESIGN section 6 witness (F1) on two registers
    yield dict(qspec=[["reg", "a", 1], ["reg", "b", 1]], cspec=[],
               instrs=[["h", [], [0], []], cut(0), ["cx", [], [0, 1], []], cut(1), ["h", [], [1], []], cut(0), ["x", [], [0], []]])
    # measurement into a late classical bit (F8)
    yield dict(qspec=[["reg", "a", 2]], cspec=[["reg", "c", 3]],
               instrs=[["h", [], [0], []], cut(0), ["measure", [], [0], [2]], ["measure", [], [1], [1]]])
    # empty registers, four classical registers, two-clbit instruction with descending clbits, conditions
    yield dict(qspec=[["reg", "e", 0], ["reg", "a", 2], ["reg", "f", 0]],
               cspec=[["reg", "z", 0], ["reg", "c", 2], ["reg", "d", 1], ["reg", "g", 1]],
               instrs=[["h", [], [0], []], cut(0), ["m2", [], [1, 0], [2, 0]], ["x_if", [3, 1], [1], []], cut(1), ["x_if", [0, 0], [0], []]])


# ----------------------------------------------------------------------------------------------
# reference used ONLY to decide whether a case is "clean" for the judge_accepts_clean_case contract
# ----------------------------------------------------------------------------------------------

def agrees_with_reference(case):
    """True iff the recorded output is what the modelled (repaired) behaviour produces; mirrors Model/CutWires.v.
    Used only to exempt cases that the Coq comparison is going to flag anyway from the clean-case contract."""
    impl = case["impl"]
    if impl[0] != "ok":
        return False
    cin, out = case["input"], impl[1]
    n = len(cin["qubits"])
    freq = [0] * n
    for d in cin["data"]:
        if d["op"][0] == "cut_wire":
            freq[d["qs"][0]] += 1
    qubits, mapping, fresh = [], [], n
    for q in range(n):
        mapping.append(len(qubits))
        qubits += list(range(fresh, fresh + freq[q])) + [q]
        fresh += freq[q]
    if out["qubits"] != qubits or out["qregs"] != cin["qregs"] or out["cregs"] != cin["cregs"] or out["nc"] != cin["nc"]:
        return False
    if len(out["data"]) != len(cin["data"]):
        return False
    for a, b in zip(cin["data"], out["data"]):
        if a["op"][0] == "cut_wire":
            g = a["qs"][0]
            ok = (b["op"][0] == "move" if case["fn"] == "moves" else (b["op"][0] == "qpd2" and b.get("as") == "move"))
            if not ok or b["qs"] != [mapping[g], mapping[g] + 1] or b["cs"] != []:
                return False
            mapping[g] += 1
        elif b["op"] != a["op"] or b["qs"] != [mapping[q] for q in a["qs"]] or b["cs"] != a["cs"]:
            return False
    e = case.get("expanded")
    if case.get("paulis") is not None:
        if e is None or e[0] != "ok":
            return False
        final = [qubits.index(q) for q in range(n)]
        for (ph, lets), got in zip(case["paulis"], e[1]):
            want = [0] * len(qubits)
            for q, l in enumerate(lets):
                want[final[q]] = l
            if got != [ph, want]:
                return False
    return True


def generate(rng, tier, outdir):
    w = CaseWriter(outdir, IMPORTS, case_types={
        "chk_cut": "op * nat * nat * regs * regs * circ * res cut_result",
        "chk_cut_expand": "nat * circ * list pauli * res (list pauli)",
        "chk_e2e": "res (list (Q * Q))"})
    quick = tier == "quick"
    w.SHARD = 300 if quick else 1500
    maxlen, maxlen6 = (5, 3) if quick else (6, 5)
    n_random = 500 if quick else 6000
    n_opaque = 150 if quick else 2000
    n_hist = 120 if quick else 1500
    n_e2e = 24 if quick else 80
    skel_rounds = 1 if quick else 4
    numeric_budget = [10**9 if quick else 60000]

    def do(stream, prog, fns=("moves", "cut_wires"), paulis="pick", expand_for=None, stats=True):
        n = prog_nq(prog)
        k = sum(1 for i in prog["instrs"] if i[0] == "cut_wire")
        for j, fn in enumerate(fns):
            qc_n = None
            ps = None
            if paulis == "pick":
                # nested: the observables live on the first result's qubits, whose number is n + k
                ps = pick_paulis(rng, n + k if prog.get("nested") else n) if (n > 0) else None
            elif paulis is not None:
                ps = paulis
            case, cn = run_case(prog, fn, ps)
            if numeric_budget[0] > 0:
                numeric_budget[0] -= 1
                clean = agrees_with_reference(case)
                try:
                    v = judge(case)
                except Exception as e:  # noqa: BLE001
                    v = dict(violates=None, detail=f"judge raised {type(e).__name__}: {e}")
                case["numeric"] = v["violates"]
                w.count("oracle.verdict_on_generated_case",
                        ("clean:" if clean else "disagrees-with-reference:") + ("raised" if v["violates"] is None else "violates" if v["violates"] else "holds"))
                if clean:
                    # the oracle must accept every case on which the implementation does what the model proves correct:
                    # a failure here is a false alarm of judge or a failure of modelling assumption M1
                    w.contract("judge_accepts_clean_case", v["violates"] is False)
                    if v["violates"] is not False and len(w.notes) < 5:
                        w.notes.append(f"judge flagged a clean case: {fn} {json.dumps(prog)} : {v['detail']}")
            if expand_for is not None and fn != expand_for:
                case2 = dict(case)
                case2["paulis_not_compared"] = True
                emit(w, stream, case2, cn, nontrivial=(k > 0), with_expand=False)
            else:
                emit(w, stream, case, cn, nontrivial=(k > 0))
            w.count(f"{stream}.outcome.{fn}", case["impl"][0])
            if "e2e" in case:
                w.count("e2e.pipeline_outcome", case["e2e"][0])
                if case["e2e"][0] == "ok":
                    w.count("e2e.partitions", len(case["e2e"][1]["partitions"]))
        if not stats:
            return
        w.count(f"{stream}.markers", k)
        w.count(f"{stream}.nq", n)
        per = {}
        order = []
        first_on_wire = last_on_wire = False
        touched = set()
        for idx, i in enumerate(prog["instrs"]):
            if i[0] == "cut_wire":
                q = i[2][0]
                per[q] = per.get(q, 0) + 1
                order.append(q)
                if q not in touched:
                    first_on_wire = True
                if not any(q in j[2] for j in prog["instrs"][idx + 1:]):
                    last_on_wire = True
            touched.update(i[2])
        runs = len([1 for a, b in zip(order, order[1:]) if a != b]) + (1 if order else 0)
        w.count(f"{stream}.interleaved_same_qubit", bool(runs > len(per)))
        w.count(f"{stream}.max_markers_on_one_qubit", max(per.values()) if per else 0)
        w.count(f"{stream}.marker_first_on_wire", first_on_wire)
        w.count(f"{stream}.marker_last_on_wire", last_on_wire)
        w.count(f"{stream}.marker_is_first_instruction", bool(prog["instrs"]) and prog["instrs"][0][0] == "cut_wire")
        w.count(f"{stream}.has_measure", any(i[0] == "measure" for i in prog["instrs"]))

    # 1. exhaustive small programs: every interleaving of the two marker kinds with generic gates (and a measurement)
    P2 = all_paulis(2)
    for idx, prog in enumerate(gen_exhaustive(maxlen, maxlen6)):
        ps = [list(p) for p in P2]
        ps[idx % len(ps)] = [idx % 4, ps[idx % len(ps)][1]]
        if quick and len(prog["instrs"]) == maxlen:
            # longest layer in the quick tier: alternate the two entry points (both share _transform_cut_wires)
            do("exh", prog, fns=(("moves",), ("cut_wires",))[idx % 2], paulis=ps)
        else:
            # both entry points; all 15 Paulis (and the Coq expand case) on one of them, 3 on the other
            first = ("moves", "cut_wires")[idx % 2]
            do("exh", prog, fns=(first,), paulis=ps)
            do("exh", prog, fns=(("cut_wires", "moves")[idx % 2],), paulis=[ps[idx % 15], ps[(idx + 4) % 15], ps[(idx + 9) % 15]], expand_for=first, stats=False)
    # 2. every marker sequence of length <= 4 on 1..4 qubits, random gate/measure filling, register layouts
    for _ in range(skel_rounds):
        for prog in gen_skeletons(rng):
            do("skel", prog)
    # 3. random longer programs with measure/reset/barrier/user Moves, classical registers
    for _ in range(n_random):
        do("rand", gen_random(rng))
    # 4. opaque operations, conditions, empty registers, many classical registers
    for _ in range(n_opaque):
        do("opaque", gen_opaque(rng))
    # 5. histories
    for _ in range(n_hist):
        do("hist", gen_hist(rng))
    # 6. cut the Moves and reconstruct (clause f)
    cut = lambda q: ["cut_wire", [], [q], []]  # noqa: E731
    fixed_e2e = [
        # interleaved markers on one qubit (the F1 pattern), generic rotations: 3 cuts
        dict(qspec=[["reg", "a", 1], ["reg", "b", 1]], cspec=[], e2e=True,
             instrs=[["ry", [0.7], [0], []], cut(0), ["cx", [], [0, 1], []], cut(1), ["ry", [0.4], [1], []], cut(0), ["rx", [1.1], [0], []],
                     ["cx", [], [1, 0], []]]),
        # three partitions, markers on different qubits after a joint entangling gate, HIGHER qubit's marker first
        dict(qspec=[["reg", "a", 2]], cspec=[], e2e=True,
             instrs=[["ry", [0.7], [0], []], ["ry", [1.2], [1], []], ["cx", [], [0, 1], []], cut(1), cut(0), ["rx", [0.5], [0], []],
                     ["rx", [0.9], [1], []]]),
        dict(qspec=[["loose", 3]], cspec=[], e2e=True,
             instrs=[["ry", [0.7], [0], []], ["ry", [1.2], [1], []], ["ry", [0.3], [2], []], ["crx", [0.9], [2, 0], []], ["cx", [], [0, 1], []],
                     cut(2), cut(0), ["rx", [0.5], [0], []], ["cx", [], [2, 1], []]]),
        # marker first on its wire and first instruction; marker last on its wire
        dict(qspec=[["loose", 2]], cspec=[], e2e=True,
             instrs=[cut(0), ["ry", [0.7], [0], []], ["ry", [1.2], [1], []], ["crx", [0.9], [1, 0], []], cut(1)]),
    ]
    for prog in fixed_e2e + [gen_e2e(rng) for _ in range(n_e2e)]:
        n = prog_nq(prog)
        k = sum(1 for i in prog["instrs"] if i[0] == "cut_wire")
        ps = all_paulis(1) if n == 1 else [[0, [3] * n]] + rand_paulis(rng, n, 2 if k >= 3 else 4, phases=False)
        do("e2e", prog, fns=("cut_wires",), paulis=ps)
    # 7. edge cases
    for prog in gen_edge(rng):
        do("edge", prog)

    return w.finish(
        rule="exh: ALL programs of length <= %d over {ry 0, rx 1, cx 0 1, cut 0, cut 1} (length <= %d also with measure 0->c[1]), all 15 "
             "two-qubit Paulis; skel: every marker sequence of length 0..4 over 1..4 qubits with random gate/measure filling and random "
             "register layouts (named registers, loose bits, classical registers); rand: random programs of length 3..14 with <= 4 "
             "markers (biased to re-cut a qubit after another one), measure/reset/barrier/user Move; opaque: two-clbit instructions with "
             "descending clbits, conditional gates, permuted barriers, pre-placed gate cuts, empty registers, 2..4 classical registers; "
             "hist: an earlier call on the same circuit object before more markers are appended, and fn(fn(c)); e2e: cut_wires -> "
             "expand_observables -> partition_problem -> generate(inf) -> ExactSampler -> reconstruct on small circuits; edge: hand-picked. "
             "Every program goes through _transform_cuts_to_moves and cut_wires (chk_cut: qubit identity order, registers, clbits, "
             "instruction list) and expand_observables (chk_cut_expand) on all 4^n-1 / all weight-1 / 1..3 random Paulis. "
             "non-trivial = at least one marker." % (maxlen, maxlen6)
    )


# ----------------------------------------------------------------------------------------------
# property-level oracle: independent branch (statevector ensemble) simulator + wire tracking
# ----------------------------------------------------------------------------------------------

def _apply(vec, U, qs):
    k = len(qs)
    Ut = np.asarray(U, dtype=complex).reshape((2,) * (2 * k))
    # Qiskit matrices: first qubit argument is the least significant bit -> axes are (q_{k-1} .. q_0)
    axes = [qs[k - 1 - j] for j in range(k)]
    out = np.tensordot(Ut, vec, axes=(list(range(k, 2 * k)), axes))
    return np.moveaxis(out, list(range(k)), axes)


_P0 = np.array([[1, 0], [0, 0]], dtype=complex)
_P1 = np.array([[0, 0], [0, 1]], dtype=complex)
_X = np.array([[0, 1], [1, 0]], dtype=complex)
_Y = np.array([[0, -1j], [1j, 0]], dtype=complex)
_Z = np.array([[1, 0], [0, -1]], dtype=complex)
_SWAP = np.array([[1, 0, 0, 0], [0, 0, 1, 0], [0, 1, 0, 0], [0, 0, 0, 1]], dtype=complex)
EPS = 1e-14


def _norm2(v):
    return float(np.vdot(v, v).real)


def simulate(n, nc, ops):
    """ops: list of (kind, payload, qubits, clbits); returns list of (clbits tuple, vector)."""
    v0 = np.zeros((2,) * n, dtype=complex)
    v0[(0,) * n] = 1.0
    branches = [((0,) * nc, v0)]

    def reset(bs, q):
        nb = []
        for cl, v in bs:
            a = _apply(v, _P0, [q])
            b = _apply(_apply(v, _P1, [q]), _X, [q])
            if _norm2(a) > EPS:
                nb.append((cl, a))
            if _norm2(b) > EPS:
                nb.append((cl, b))
        return nb

    for kind, payload, qs, cs in ops:
        if kind == "gate":
            branches = [(cl, _apply(v, payload, qs)) for cl, v in branches]
        elif kind == "measure":
            nb = []
            for cl, v in branches:
                for bit, Pm in ((0, _P0), (1, _P1)):
                    a = _apply(v, Pm, [qs[0]])
                    if _norm2(a) > EPS:
                        c2 = list(cl)
                        c2[cs[0]] = bit
                        nb.append((tuple(c2), a))
            branches = nb
        elif kind == "reset":
            branches = reset(branches, qs[0])
        elif kind == "move":  # Move.definition: reset(1); swap(0, 1)
            branches = reset(branches, qs[1])
            branches = [(cl, _apply(v, _SWAP, qs)) for cl, v in branches]
        elif kind == "skip":
            pass
        else:
            raise ValueError(kind)
    return branches


def pauli_stats(branches, phase, lets):
    """classical outcome -> (probability, unnormalised <P>) ; P = (-i)^phase * letters"""
    out = {}
    for cl, v in branches:
        pv = v
        for q, l in enumerate(lets):
            if l:
                pv = _apply(pv, (_X, _Y, _Z)[l - 1], [q])
        val = ((-1j) ** phase) * np.vdot(v, pv)
        p, e = out.get(cl, (0.0, 0.0))
        out[cl] = (p + _norm2(v), e + val)
    return out


def _ops_from_canon(data):
    ops = []
    for d in data:
        op = d["op"]
        if op[0] in ("barrier", "cut_wire"):
            ops.append(("skip", None, d["qs"], d["cs"]))
        elif op[0] in ("measure", "reset", "move"):
            ops.append((op[0], None, d["qs"], d["cs"]))
        elif op[0] == "qpd2" and d.get("as") == "move":
            ops.append(("move", None, d["qs"], d["cs"]))
        elif op[0] == "gate" and op[2] in GATES and not d["cs"]:
            ops.append(("gate", GATES[op[2]](*op[3]).to_matrix(), d["qs"], d["cs"]))
        else:
            return None
    return ops


def _opsig(d):
    op = d["op"]
    if op[0] == "gate":
        return ("gate", op[2], tuple(op[3]))
    if op[0] == "barrier":
        return ("barrier",)
    if op[0] == "qpd2":
        return ("qpd2", d.get("as"), str(op[2:]))
    return tuple(str(x) for x in op)


def track_wires(cin, out, fn):
    """Independent of the model: follow where each original wire lives in the result.
    Initially every position holds |0>, so a wire is bound to the position of its first use.  A marker on wire q must
    be a Move from q's position to a position holding no wire (then q lives there); a kept instruction on wires qs must
    act on exactly their current positions.  In the end wire q must sit on the original Qubit object q (that is where
    expand_observables reads it) and no other wire may sit on an original Qubit object of an untouched wire.
    Returns None or a description of the first problem."""
    n = len(cin["qubits"])
    loc = {}

    def holder(p):
        return [q for q, x in loc.items() if x == p]

    def bind(q, p):
        if q in loc:
            return loc[q] == p
        if holder(p):
            return False
        loc[q] = p
        return True

    for pos, (a, b) in enumerate(zip(cin["data"], out["data"])):
        if a["op"][0] == "cut_wire":
            q = a["qs"][0]
            src, dst = b["qs"]
            if not bind(q, src):
                return f"instruction {pos}: Move source {src} is not where wire {q} lives ({loc.get(q)})"
            if holder(dst):
                return f"instruction {pos}: Move destination {dst} holds wire {holder(dst)[0]}"
            loc[q] = dst
        else:
            if len(set(b["qs"])) != len(b["qs"]):
                return f"instruction {pos}: duplicate qubit positions {b['qs']}"
            simulable = a["op"][0] in ("barrier", "measure", "reset", "move") or (a["op"][0] == "gate" and a["op"][2] in GATES and not a["cs"])
            if simulable:
                # operand ORDER of an executable operation is judged by the simulation (swap(1,0) = swap(0,1));
                # here only: it acts on the positions of the same set of wires
                rest = list(b["qs"])
                unbound = []
                for q in a["qs"]:
                    if q in loc:
                        if loc[q] not in rest:
                            return f"instruction {pos} ({a['op'][0]}) acts on positions {b['qs']}, but wire {q} lives on {loc[q]}"
                        rest.remove(loc[q])
                    else:
                        unbound.append(q)
                for q, p in zip(unbound, rest):
                    if not bind(q, p):
                        return f"instruction {pos} ({a['op'][0]}) acts on position {p}, which is held by wire {holder(p)}"
            else:
                for q, p in zip(a["qs"], b["qs"]):
                    if not bind(q, p):
                        return f"instruction {pos} ({a['op'][0]}) acts on position {p} for wire {q}, which lives on {loc.get(q)} / position held by {holder(p)}"
    for q in range(n):
        final = out["qubits"].index(q)
        if q in loc and loc[q] != final:
            return f"wire {q} ends on position {loc[q]}, but the original qubit object is position {final}"
        if q not in loc and holder(final):
            return f"original qubit object {q} (position {final}) ends up holding wire {holder(final)[0]}"
    return None


def judge(case):
    case = unpack(case)
    impl = case["impl"]
    cin = case["input"]
    n = len(cin["qubits"])
    nc = cin["nc"]
    k = sum(1 for d in cin["data"] if d["op"][0] == "cut_wire")
    if impl[0] != "ok":
        return dict(violates=True, detail=f"{case['fn']} raised: {impl[1]}")
    out = impl[1]
    # --- structure: one more qubit per marker, originals / registers / instructions kept in order
    if len(out["qubits"]) != n + k:
        return dict(violates=True, detail=f"{len(out['qubits'])} qubits in the result, expected {n} + {k} markers")
    if [t for t in out["qubits"] if t < n] != list(range(n)) or len(set(out["qubits"])) != n + k:
        return dict(violates=True, detail=f"original qubits not kept in order: {out['qubits']}")
    if out["qregs"] != cin["qregs"] or out["cregs"] != cin["cregs"] or out["nc"] != cin["nc"] \
            or out["qreg_names"] != cin["qreg_names"] or out["creg_names"] != cin["creg_names"]:
        return dict(violates=True, detail=f"registers/clbits changed: {cin['qreg_names']},{cin['creg_names']} -> {out['qreg_names']},{out['creg_names']}")
    if len(out["data"]) != len(cin["data"]):
        return dict(violates=True, detail=f"number of instructions changed: {len(cin['data'])} -> {len(out['data'])}")
    kept_problem = None
    for pos, (a, b) in enumerate(zip(cin["data"], out["data"])):
        if a["op"][0] == "cut_wire":
            is_move = b["op"][0] == "move" if case["fn"] == "moves" else (b["op"][0] == "qpd2" and b.get("as") == "move")
            if not is_move or len(b["qs"]) != 2 or b["cs"]:
                return dict(violates=True, detail=f"instruction {pos}: marker not replaced by a Move: {b}")
        else:
            if _opsig(a) != _opsig(b) or len(a["qs"]) != len(b["qs"]):
                return dict(violates=True, detail=f"instruction {pos} not kept: {a['op'][:3]} qs={a['qs']} cs={a['cs']} became {b['op'][:3]} qs={b['qs']} cs={b['cs']}")
            if a["cs"] != b["cs"] and not kept_problem:
                # recorded; the simulation below shows what it does to the classical-bit statistics
                kept_problem = (f"instruction {pos} not kept: {a['op'][0]} qs={a['qs']} clbits={a['cs']} became "
                                f"{b['op'][0]} qs={b['qs']} clbits={b['cs']}")
    if any(p < 0 or p >= n + k for d in out["data"] for p in d["qs"]):
        return dict(violates=True, detail="qubit position out of range in the result")
    # --- every instruction (barriers and opaque ones too) acts on the wires it acted on
    tw = track_wires(cin, out, case["fn"])
    if tw:
        return dict(violates=True, detail=tw)
    # --- expansion of observables must succeed and have the right shape
    exp = case.get("expanded")
    if case.get("paulis") is not None:
        if exp is None or exp[0] != "ok":
            return dict(violates=True, detail=f"expand_observables raised: {exp}")
        if len(exp[1]) != len(case["paulis"]) or any(len(e[1]) != n + k for e in exp[1]):
            return dict(violates=True, detail=f"expanded observables have the wrong shape: {len(exp[1])} strings of widths {[len(e[1]) for e in exp[1]]}, expected {len(case['paulis'])} of width {n + k}")
    # --- semantics
    o1 = _ops_from_canon(cin["data"])
    o2 = _ops_from_canon(out["data"])
    if o1 is None or o2 is None or case.get("paulis") is None:
        if kept_problem:
            return dict(violates=True, detail=kept_problem)
        return dict(violates=False, detail="structure and wire tracking hold; not simulated (opaque operations / no observable)")
    b1 = simulate(n, nc, o1)
    b2 = simulate(n + k, nc, o2)
    worst = 0.0
    uncut = []
    for (ph, lets), (ph2, lets2) in zip(case["paulis"], exp[1]):
        s1 = pauli_stats(b1, ph, lets)
        s2 = pauli_stats(b2, ph2, lets2)
        uncut.append(sum(e for _, e in s1.values()))
        for key in set(s1) | set(s2):
            p1, e1 = s1.get(key, (0.0, 0.0))
            p2, e2 = s2.get(key, (0.0, 0.0))
            d = max(abs(p1 - p2), abs(e1 - e2))
            worst = max(worst, d)
            if d > 1e-9:
                return dict(violates=True, detail=(kept_problem + "; " if kept_problem else "") +
                            f"observable phase={ph} letters={lets} (expanded {lets2}), classical outcome {key}: "
                            f"original (prob, <P>)=({p1:.6g}, {complex(e1):.6g}) transformed ({p2:.6g}, {complex(e2):.6g})")
    if kept_problem:
        return dict(violates=True, detail=kept_problem + " (expectation values and outcome statistics happen to agree on this input)")
    # --- clause f: cutting the Moves and reconstructing with exact weights returns the original values
    if "e2e" in case:
        e2 = case["e2e"]
        if e2[0] != "ok":
            return dict(violates=True, detail=f"cut-and-reconstruct pipeline raised: {e2[1]}")
        vals = e2[1]["values"]
        if len(vals) != len(uncut):
            return dict(violates=True, detail=f"{len(vals)} reconstructed values for {len(uncut)} observables")
        for (ph, lets), v, u in zip(case["paulis"], vals, uncut):
            if abs(v - complex(u).real) > 1e-7 or abs(complex(u).imag) > 1e-9:
                return dict(violates=True, detail=f"reconstructed <{lets}> = {v:.9g}, uncut circuit gives {complex(u).real:.9g}")
        return dict(violates=False, detail=f"structure holds; max deviation {worst:.2e}; {len(vals)} reconstructed values agree with the uncut circuit "
                                           f"({e2[1]['subexperiments']} subexperiments, partitions {e2[1]['partitions']})")
    return dict(violates=False, detail=f"structure holds; max deviation {worst:.2e} over {len(case['paulis'])} observables")


def rerun(case):
    """Re-execute the implementation on the stored program (for --replay)."""
    case = unpack(case)
    new, _ = run_case(case["prog"], case["fn"], case.get("paulis"))
    new["kind"] = case.get("kind", "cut")
    return new

"""C09 correspondence: call histories of find_cuts / generate_cutting_experiments(num_samples=inf) /
QPDBasis.from_instruction  vs  Model/Process.v  (process-state model).

Every HISTORY is executed in its own interpreter (this file run with --worker): import the package, snapshot the
process-global objects, then for every event  [perturb the global generators] ; fingerprint ; call ; fingerprint.
Every distinct call of a history is additionally executed FIRST in a fresh interpreter (a history of length 1).
The main process only generates recipes (all randomness from the `rng` argument), launches workers, interns what
they report and writes the Coq cases.

Three streams:
  history : (registry views, fresh-interpreter result table, events)       checker chk_history
  copy    : ActionNames.copy(groups1).copy(groups2) on the real registry   checker chk_copy
  define  : sequences of define_action on a fresh ActionNames()            checker chk_define
"""
from __future__ import annotations

import hashlib
import json
import os
import re
import subprocess
import sys
import tempfile
from concurrent.futures import ThreadPoolExecutor

import numpy as np

from fractions import Fraction

from common import CaseWriter, Raw, Res, Zc, Qc, Opt, Interner, coq

IMPORTS = ("From Coq Require Import String ZArith QArith.\n"
           "From CKT Require Import Common.Base Model.Process Corr.C09Corr.\n"
           "Close Scope Q_scope.\nOpen Scope string_scope.")
SLOTS = ["cost_func", "next_state_func", "goal_state_func", "upperbound_cost_func", "mincost_bound_func"]
HERE = os.path.dirname(os.path.abspath(__file__))
JOBS = int(os.environ.get("CKT_C09_JOBS", "8"))

G0 = ["swap", "iswap", "dcx", "cs", "csdg", "csx", "csxdg", "cx", "cy", "cz", "ch", "ecr", "move"]
G1 = ["rxx", "ryy", "rzz", "crx", "cry", "crz", "cp"]
GKAK = ["rzx", "xx_plus_yy", "xx_minus_yy", "cu", "unitary"]


# =================================================================================================
# worker side (runs in its own interpreter)
# =================================================================================================

def _strip_addr(s):
    return re.sub(r"0x[0-9a-fA-F]+", "0x?", s)


def _build_gate(name, params):
    from qiskit.circuit import library as L
    from qiskit_addon_cutting.instructions import Move
    simple = dict(swap=L.SwapGate, iswap=L.iSwapGate, dcx=L.DCXGate, cs=L.CSGate, csdg=L.CSdgGate, csx=L.CSXGate,
                  cx=L.CXGate, cy=L.CYGate, cz=L.CZGate, ch=L.CHGate, ecr=L.ECRGate, move=Move,
                  h=L.HGate, x=L.XGate, s=L.SGate, sx=L.SXGate)
    par = dict(rxx=L.RXXGate, ryy=L.RYYGate, rzz=L.RZZGate, crx=L.CRXGate, cry=L.CRYGate, crz=L.CRZGate, cp=L.CPhaseGate,
               rzx=L.RZXGate, xx_plus_yy=L.XXPlusYYGate, xx_minus_yy=L.XXMinusYYGate, cu=L.CUGate,
               rz=L.RZGate, rx=L.RXGate, ry=L.RYGate)
    if name == "csxdg":
        return L.CSXGate().inverse()
    if name == "ccx":
        return L.CCXGate()
    if name == "rzz_unbound":
        from qiskit.circuit import Parameter
        return L.RZZGate(Parameter("t"))
    if name == "unitary":
        from qiskit.quantum_info import random_unitary
        return L.UnitaryGate(random_unitary(4, seed=int(params[0])).data)
    if name in simple:
        return simple[name]()
    return par[name](*[float(p) for p in params])


def _build_circuit(nq, ops):
    from qiskit import QuantumCircuit
    qc = QuantumCircuit(nq)
    for name, qs, params in ops:
        if name == "barrier":
            qc.barrier(*qs)
        else:
            qc.append(_build_gate(name, params), list(qs))
    return qc


def _canon_float(x):
    return float(x).hex()


def _canon_basis_op(op):
    ps = []
    for p in op.params:
        if isinstance(p, np.ndarray):
            ps.append(["m", list(p.shape), hashlib.sha256(np.ascontiguousarray(p).tobytes()).hexdigest()])
        else:
            try:
                ps.append(["f", _canon_float(p)])
            except Exception:  # noqa: BLE001
                ps.append(["r", _strip_addr(repr(p))])
    return [op.name, ps]


def _canon_basis(b):
    return dict(maps=[[[_canon_basis_op(o) for o in side] for side in m] for m in b.maps],
                coeffs=[_canon_float(c) for c in b.coeffs])


_AUTO = re.compile(r"^(q|c)\d+$")


def _canon_circ(ctx, qc):
    """instruction list + register structure.  Names of ANONYMOUS registers ("q7", "c3": Qiskit numbers them with a
    process-global counter, e.g. QuantumRegister(bits=…) in utils/transforms.py) are interned per result, like uuids."""
    from circ import circuit_registers
    regs = circuit_registers(qc)
    if not hasattr(ctx, "autonames"):
        ctx.autonames = Interner()

    def nm(n):
        return f"<anonymous {n[0]}#{ctx.autonames(n)}>" if _AUTO.match(n) else n
    regs["qregs"] = [[nm(n), k] for n, k in regs["qregs"]]
    regs["cregs"] = [[nm(n), k] for n, k in regs["cregs"]]
    return dict(regs=regs, data=ctx.canon_circuit(qc))


def _arg_snapshot(qc):
    """what a later call on the same circuit OBJECT would see: names + qubit indices + parameters of the instruction list"""
    return [(inst.operation.name, tuple(qc.find_bit(q).index for q in inst.qubits), _strip_addr(repr(list(inst.operation.params))))
            for inst in qc.data]


def _exec_call(spec, cache=None, side=None):
    """-> (canonical JSON-able result, short summary).  Exceptions are part of the result.
    cache: dict or None.  With a dict, the argument OBJECTS (circuit, OptimizationParameters, DeviceConstraints, gate,
    observables) of equal calls are built once and passed again (instance reuse).
    side: dict or None; receives arg_unchanged (find_cuts: instruction list of the circuit object passed in, before == after).
    The canonical result is ALWAYS what the call returned: a call that writes into its argument is not turned into a uniform
    "crashed" (that would make the first and the repeated call on the same object look alike); the repetition on the reused
    object then shows the difference in the result itself."""
    from circ import CircCtx
    kind = spec["kind"]
    key = json.dumps(spec, sort_keys=True)

    def cached(tag, build):
        if cache is None:
            return build()
        if (tag, key) not in cache:
            cache[(tag, key)] = build()
        return cache[(tag, key)]
    try:
        if kind == "fc":
            from qiskit_addon_cutting.automated_cut_finding import find_cuts, OptimizationParameters, DeviceConstraints
            qc = cached("qc", lambda: _build_circuit(spec["nq"], spec["ops"]))
            arg_before = _arg_snapshot(qc)
            opt = cached("opt", lambda: OptimizationParameters(seed=spec["seed"], max_gamma=spec["max_gamma"],
                                                               max_backjumps=spec["max_backjumps"],
                                                               gate_lo=spec["gate_lo"], wire_lo=spec["wire_lo"]))
            cons = cached("cons", lambda: DeviceConstraints(spec["width"]))
            try:
                out, md = find_cuts(qc, opt, cons)
                if side is not None:
                    side["wire_only"] = bool(md["cuts"]) and all(str(t) == "Wire Cut" for t, _ in md["cuts"])
            finally:
                if side is not None:
                    side["arg_unchanged"] = (_arg_snapshot(qc) == arg_before)
            ctx = CircCtx()
            c = _canon_circ(ctx, out)
            benv = [[[str(x) for x in side] for side in m] for b in ctx.canon_benv() for m in b]
            benv.append([[_canon_float(x) for x in b.coeffs] for b in ctx.bases])
            meta = dict(cuts=[[str(t), int(i)] for t, i in md["cuts"]], sampling_overhead=_canon_float(md["sampling_overhead"]),
                        minimum_reached=bool(md["minimum_reached"]), keys=sorted(md.keys()))
            return ["ok", dict(circ=c, benv=benv, gate_info={str(k): [v[0], [(_canon_float(p) if isinstance(p, float) else p) for p in v[1]]]
                                                           for k, v in ctx.gate_info.items()}, meta=meta)], \
                f"ok n={len(out.data)} cuts={len(md['cuts'])} ovh={float(md['sampling_overhead'])} min={md['minimum_reached']}"
        if kind == "ge":
            from qiskit.quantum_info import PauliList
            from qiskit_addon_cutting import partition_problem, generate_cutting_experiments, cut_gates
            qc = cached("qc", lambda: _build_circuit(spec["nq"], spec["ops"]))
            obs = cached("obs", lambda: PauliList(spec["obs"]))
            ns = np.inf if spec["num_samples"] is None else spec["num_samples"]
            if spec["form"] == "partitioned":
                pp = partition_problem(qc, spec["labels"], observables=obs)
                sub, coef = generate_cutting_experiments(pp.subcircuits, pp.subobservables, num_samples=ns)
                ctx = CircCtx()
                csub = [[repr(k), [_canon_circ(ctx, c) for c in v]] for k, v in sorted(sub.items(), key=lambda kv: repr(kv[0]))]
                nsub = sum(len(v) for v in sub.values())
            else:
                labels = spec["labels"]
                ids = [i for i, inst in enumerate(qc.data) if len(inst.qubits) == 2
                       and labels[qc.find_bit(inst.qubits[0]).index] != labels[qc.find_bit(inst.qubits[1]).index]]
                cqc, _ = cut_gates(qc, ids)
                sub, coef = generate_cutting_experiments(cqc, obs, num_samples=ns)
                ctx = CircCtx()
                csub = [_canon_circ(ctx, c) for c in sub]
                nsub = len(sub)
            ccoef = [[_canon_float(w), t.name] for w, t in coef]
            return ["ok", dict(sub=csub, coef=ccoef)], f"ok subexperiments={nsub} coefficients={len(coef)}"
        if kind == "fi":
            from qiskit_addon_cutting.qpd import QPDBasis
            b = QPDBasis.from_instruction(cached("gate", lambda: _build_gate(spec["gate"], spec["params"])))
            return ["ok", _canon_basis(b)], f"ok maps={len(b.maps)} kappa={b.kappa}"
        raise KeyError(kind)
    except ValueError as e:
        return ["refused", _strip_addr(str(e))[:300]], "refused"
    except Exception as e:  # noqa: BLE001
        return ["crashed", type(e).__name__ + ": " + _strip_addr(str(e))[:300]], "crashed " + type(e).__name__


class _Proc:
    """Handles on the process-global objects + fingerprinting."""

    def __init__(self):
        import dataclasses
        import random
        from qiskit_addon_cutting.cut_finding import cutting_actions as CA, cut_optimization as CO, lo_cuts_optimizer as LO
        from qiskit_addon_cutting.cut_finding import optimization_settings as OS
        from qiskit_addon_cutting.qpd import decompositions as DE
        import qiskit_addon_cutting.automated_cut_finding as ACF
        self.CA, self.CO, self.LO, self.DE, self.ACF, self.OS = CA, CO, LO, DE, ACF, OS
        self.random = random
        self.dataclasses = dataclasses
        self.start = self._identity()

    def _identity(self):
        CA, CO, LO, DE = self.CA, self.CO, self.LO, self.DE
        reg = CA.disjoint_subcircuit_actions
        ids = [id(reg), id(reg.action_dict), id(reg.group_dict)]
        ids += [id(a) for a in reg.action_dict.values()]
        ids += [id(l) for l in reg.group_dict.values()] + [id(x) for l in reg.group_dict.values() for x in l]
        ids += [id(CO.disjoint_subcircuit_actions), id(LO.disjoint_subcircuit_actions)]
        slots_are_module_functions = True
        for T in (CO.cut_optimization_search_funcs, LO.cut_optimization_search_funcs):
            ids.append(id(T))
            for s in SLOTS:
                f = getattr(T, s)
                ids.append(id(f))
                if f is not None and getattr(CO, getattr(f, "__name__", "?"), None) is not f:
                    slots_are_module_functions = False
        ids += [id(DE._qpdbasis_from_instruction_funcs)] + [id(f) for f in DE._qpdbasis_from_instruction_funcs.values()]
        ids += [id(CO.greedy_cut_optimization.__defaults__[0]), id(CO.greedy_cut_optimization.__defaults__[1])]
        defaults = [repr([(f.name, f.default) for f in self.dataclasses.fields(c)])
                    for c in (self.ACF.OptimizationParameters, self.OS.OptimizationSettings)]
        action_attrs = [sorted(vars(a).keys()) for a in reg.action_dict.values()]
        return (tuple(ids), slots_are_module_functions, tuple(defaults), repr(action_attrs))

    def fingerprint(self):
        CA, CO, LO, DE = self.CA, self.CO, self.LO, self.DE
        reg = CA.disjoint_subcircuit_actions
        actions = [[k, a.get_name(), list(a.get_group_names())] for k, a in reg.action_dict.items()]
        groups = [[k, [a.get_name() for a in l]] for k, l in reg.group_dict.items()]

        def slots(T):
            return [(getattr(getattr(T, s), "__name__", None) if getattr(T, s) is not None else None) for s in SLOTS]
        st = np.random.get_state()
        h = hashlib.sha256()
        h.update(repr(st[0]).encode() + st[1].tobytes() + repr(st[2:]).encode())
        return dict(reg=dict(actions=actions, groups=groups, cutopt=slots(CO.cut_optimization_search_funcs),
                             lo=slots(LO.cut_optimization_search_funcs), basis=list(DE._qpdbasis_from_instruction_funcs.keys()),
                             same=(self._identity() == self.start)),
                    np=h.hexdigest()[:24], py=hashlib.sha256(repr(self.random.getstate()).encode()).hexdigest()[:24])

    def perturb(self, recipe):
        for step in recipe:
            k = step[0]
            if k == "np_seed":
                np.random.seed(int(step[1]))
            elif k == "np_adv":
                np.random.random(int(step[1]))
            elif k == "np_choice":
                np.random.choice(5, int(step[1]))
            elif k == "py_seed":
                self.random.seed(int(step[1]))
            elif k == "py_adv":
                for _ in range(int(step[1])):
                    self.random.random()
            else:
                raise KeyError(k)


def worker(inp, outp):
    import warnings
    warnings.filterwarnings("ignore")
    job = json.load(open(inp))
    full = job.get("full", False)
    cache = {} if job.get("reuse") else None
    P = _Proc()
    from typing import cast, Callable
    out = dict(events=[], contracts=dict(cast_identity=(cast(Callable, worker) is worker)),
               hashseed=os.environ.get("PYTHONHASHSEED"))
    for ev in job["events"]:
        rec = dict()
        if ev.get("perturb"):
            P.perturb(ev["perturb"])
        rec["before"] = P.fingerprint()
        spec = ev["call"]
        side = {}
        res, summary = _exec_call(spec, cache, side)
        rec["after"] = P.fingerprint()
        if "arg_unchanged" in side:
            rec["arg_unchanged"] = side["arg_unchanged"]
            rec["wire_only"] = bool(side.get("wire_only"))
        txt = json.dumps(res, sort_keys=True)
        rec["digest"] = hashlib.sha256(txt.encode()).hexdigest()[:24]
        rec["status"] = res[0]
        rec["summary"] = summary
        if full:
            rec["full"] = res
        if spec["kind"] == "fc" and spec["seed"] is not None:
            try:
                a = np.random.default_rng(spec["seed"]).random(6)
                b = np.random.default_rng(spec["seed"]).random(6)
                rec["orng"] = [bool((a == b).all()), hashlib.sha256(a.tobytes()).hexdigest()[:16]]
            except ValueError:                      # negative seed: numpy refuses, deterministically
                rec["orng"] = [True, "refused"]
            rec["after_probe"] = P.fingerprint()["np"]  # the probe itself must not move the global state either
        if spec["kind"] == "ge":
            try:
                from qiskit_addon_cutting.qpd import QPDBasis
                ok = True
                coeffs = []
                labels = spec["labels"]
                for name, qs, params in spec["ops"]:
                    if len(qs) == 2:
                        b = QPDBasis.from_instruction(_build_gate(name, params))
                        if labels[qs[0]] != labels[qs[1]]:      # a gate that is cut: its basis enters the joint distribution
                            coeffs.append([[Fraction(float(c)).numerator, Fraction(float(c)).denominator] for c in b.coeffs])
                        w_ = np.abs(np.asarray(b.coeffs, dtype=float))
                        ok = ok and bool(np.allclose(np.asarray(b.probabilities), w_ / w_.sum(), rtol=1e-12, atol=0)) \
                            and bool(abs(b.kappa - w_.sum()) <= 1e-12 * w_.sum())
                rec["probs_model"] = ok
                rec["coeffs"] = coeffs
            except Exception:  # noqa: BLE001
                rec["probs_model"] = True
                rec["coeffs"] = []
        out["events"].append(rec)
    json.dump(out, open(outp, "w"))


# =================================================================================================
# main side
# =================================================================================================

DEAD_FP = dict(reg=dict(actions=[], groups=[], cutopt=[None] * 5, lo=[None] * 5, basis=[], same=False), np="worker-failed", py="worker-failed")


def run_workers(jobs, full=False, timeout=900):
    """jobs: list of dict(events=[…], hashseed="0"|…, reuse=bool).  Each job runs in its own interpreter with its own
    PYTHONHASHSEED; -> list of worker outputs.  A worker that dies or hangs does not abort the run: all its events are
    recorded as crashed with an impossible fingerprint (so the model comparison and judge both flag the history)."""
    tmp = tempfile.mkdtemp(prefix="c09_", dir=os.environ.get("CKT_C09_TMP", None))

    def one(i):
        job = jobs[i]
        inp = os.path.join(tmp, f"in{i}.json")
        outp = os.path.join(tmp, f"out{i}.json")
        json.dump(dict(events=job["events"], full=full, reuse=bool(job.get("reuse"))), open(inp, "w"))
        env = dict(os.environ, PYTHONHASHSEED=str(job.get("hashseed", "0")))
        err = None
        try:
            p = subprocess.run([sys.executable, os.path.join(HERE, "c09.py"), "--worker", inp, outp], env=env,
                               stdout=subprocess.PIPE, stderr=subprocess.STDOUT, text=True, timeout=timeout)
            if p.returncode == 0 and os.path.exists(outp):
                return json.load(open(outp))
            err = "worker exit %s: %s" % (p.returncode, p.stdout[-600:])
        except subprocess.TimeoutExpired:
            err = f"worker timeout after {timeout}s"
        except Exception as e:  # noqa: BLE001
            err = f"{type(e).__name__}: {e}"
        finally:
            for f in (inp, outp):
                try:
                    os.remove(f)
                except OSError:
                    pass
        recs = [dict(before=DEAD_FP, after=DEAD_FP, digest="worker-failed", status="crashed", summary=_strip_addr(err)[:300],
                     full=["crashed", err[:300]]) for _ in job["events"]]
        return dict(events=recs, contracts=dict(cast_identity=True), hashseed=str(job.get("hashseed", "0")), worker_error=err)

    with ThreadPoolExecutor(max_workers=JOBS) as ex:
        res = list(ex.map(one, range(len(jobs))))
    try:
        os.rmdir(tmp)
    except OSError:
        pass
    return res


# ---------------- recipe generators ----------------

def _angle(rng):
    if rng.integers(0, 3) == 0:
        return float(int(rng.integers(-8, 9)) * np.pi / 8)
    return float(rng.uniform(-3.2, 3.2))


def gen_seed(rng, boundary=0.5):
    """integer seeds with the boundary values over-represented: 0 (falsy!), 1, 2**32-1; 1/16 None"""
    r = float(rng.random())
    if r < boundary * 0.7:
        return 0
    if r < boundary * 0.85:
        return 1
    if r < boundary:
        return 2 ** 32 - 1
    if r < boundary + 0.06:
        return None
    if r < boundary + 0.12:
        return [2 ** 32, 2 ** 64, -1, 2 ** 63 - 1][int(rng.integers(0, 4))]      # -1: numpy refuses (ValueError)
    return int(rng.integers(0, 2 ** 31))


# (ring size, width) pairs on which the random tie-break of the priority queue decides WHICH of several equally cheap
# cut sets is returned (measured on the unchanged tree: 2-5 distinct outputs over 12 seeds)
TIE_RINGS = [(4, 3), (5, 2), (5, 3), (5, 4), (5, 4), (6, 4)]


def gen_fc_tie(rng, seed=None, force_seed=False):
    """tie-heavy circuits: a ring of identical two-qubit gates on 4-6 (randomly relabelled) qubits, optionally two rounds"""
    n, width = TIE_RINGS[int(rng.integers(0, len(TIE_RINGS)))]
    g = ["cx", "cx", "cz"][int(rng.integers(0, 3))]
    perm = [int(x) for x in rng.permutation(n)]
    off = int(rng.integers(0, n))
    ops = [[g, [perm[(i + off) % n], perm[(i + off + 1) % n]], []] for i in range(n)]
    if rng.integers(0, 5) == 0:
        ops = ops + [[g, list(o[1]), []] for o in ops]
    if n == 5 and width == 2:
        kinds = [(True, True), (True, False)][int(rng.integers(0, 2))]
    else:
        kinds = [(True, True), (True, False), (False, True)][int(rng.integers(0, 3))]
    return dict(kind="fc", nq=n, ops=ops, width=width, gate_lo=kinds[0], wire_lo=kinds[1],
                max_gamma=[1024, 1e6, 1e9][int(rng.integers(0, 3))], max_backjumps=[10000, None, 1000][int(rng.integers(0, 3))],
                seed=(seed if force_seed else gen_seed(rng, 0.6)))


def gen_fc(rng):
    if rng.integers(0, 5) < 2:
        return gen_fc_tie(rng)
    nq = int(rng.integers(2, 7))
    ng = int(rng.integers(1, 3 + 2 * nq // 2))
    ops = []
    for _ in range(ng):
        a, b = [int(x) for x in rng.choice(nq, 2, replace=False)]
        r = int(rng.integers(0, 14))
        g = ["cx", "cz", "swap"][r % 3] if r < 11 else ["rzz", "cp", "rzx"][r - 11]     # rzx: KAK path
        ops.append([g, [a, b], [_angle(rng)] if g in ("rzz", "cp", "rzx") else []])
        if rng.integers(0, 3) == 0:
            o = ["h", "x", "s", "rz"][int(rng.integers(0, 4))]
            ops.append([o, [int(rng.integers(0, nq))], [_angle(rng)] if o == "rz" else []])
    r = int(rng.integers(0, 30))
    if r == 0 and nq >= 3:                                        # 3-qubit gate: ValueError raised inside the greedy pass
        ops.insert(int(rng.integers(0, len(ops) + 1)), ["ccx", [int(x) for x in rng.choice(nq, 3, replace=False)], []])
    elif r < 4:                                                   # full-width barrier: the "barrier" branch of qc_to_cco_circuit
        ops.insert(int(rng.integers(0, len(ops) + 1)), ["barrier", list(range(nq)), []])
    mode = int(rng.integers(0, 40))
    if mode == 0:
        width = 0                                                 # malformed (DeviceConstraints refuses)
    elif mode < 32:
        width = int(rng.integers(1, nq))                          # narrower than the circuit: cuts are needed
    else:
        width = int(rng.integers(1, nq + 1))
    kinds = [(True, True), (True, True), (True, True), (True, False), (True, False), (False, True), (False, True),
             (False, False)][int(rng.integers(0, 8))]
    max_gamma = [1, 2, 3, 9, 16, 27, 81, 256, 1024, 1024, 1e4, 1e6, 1e6, 1e9, 3.5, 0.5][int(rng.integers(0, 16))]
    mb = [None, 0, 1, 2, 5, 20, 100, 10000][int(rng.integers(0, 8))]
    seed = gen_seed(rng, 0.35)
    return dict(kind="fc", nq=nq, ops=ops, width=width, gate_lo=kinds[0], wire_lo=kinds[1], max_gamma=max_gamma,
                max_backjumps=mb, seed=seed)


def gen_fc_filler(rng):
    """search on a circuit with no (rarely one) two-qubit gate: nothing to cut"""
    n = int(rng.integers(2, 5))
    ops = [["rx", [q], [_angle(rng)]] for q in range(n)]
    if rng.integers(0, 7) == 0:
        ops.append(["cx", [0, 1], []])
    return dict(kind="fc", nq=n, ops=ops, width=int(rng.integers(1, n + 1)), gate_lo=True, wire_lo=True, max_gamma=1024,
                max_backjumps=10000, seed=gen_seed(rng, 0.3))


def gen_fc_star(rng):
    """searches whose optimum consists of WIRE CUTS ONLY (find_cuts then replaces no gate before it inserts the cut_wire
    instructions).  2/3: a hub qubit that collects several cx and then feeds one more: the optimum is ONE WIRE CUT at the hub
    (overhead 16) as long as the search may place wire cuts; otherwise two gate cuts (81).  1/3: two blocks of repeated gates
    sharing one qubit."""
    if rng.integers(0, 3) == 0:
        # two blocks of 2-3 repeated swap (or cx) gates that share ONE qubit, width 2: cutting a block costs gamma >= 3**2 with
        # gate cuts, one wire cut on the shared qubit between the blocks costs 4 -> the optimum replaces NO gate
        perm = [int(x) for x in rng.permutation(3)]
        g = ["swap", "swap", "cx"][int(rng.integers(0, 3))]
        k1, k2 = int(rng.integers(2, 4)), int(rng.integers(2, 4))
        ops = [[g, [perm[0], perm[1]], []] for _ in range(k1)] + [[g, [perm[1], perm[2]], []] for _ in range(k2)]
        return dict(kind="fc", nq=3, ops=ops, width=2, gate_lo=True, wire_lo=True, max_gamma=1024, max_backjumps=10000,
                    seed=gen_seed(rng, 0.3))
    n = int(rng.integers(4, 7))
    perm = [int(x) for x in rng.permutation(n)]
    hub, last = perm[n - 2], perm[n - 1]
    ops = [["cx", [perm[i], hub], []] for i in range(n - 2)]
    ops.append(["h", [last], []])
    ops.append(["cx", [hub, last], []])
    return dict(kind="fc", nq=n, ops=ops, width=n - 2, gate_lo=True, wire_lo=True, max_gamma=1024, max_backjumps=10000,
                seed=gen_seed(rng, 0.3))


EXACT_GATES = ["cx", "cz", "cy"]          # probabilities 1/6 each: all-exact for every num_samples >= 36


def gen_ge(rng, num_samples=None, exact_gates=False):
    nq = int(rng.integers(2, 5))
    k = int(rng.integers(1, nq))
    labels = "A" * k + "B" * (nq - k)
    ops = [["h", [q], []] for q in range(nq)]
    ncross = 1 if rng.integers(0, 3) else 2
    items = []
    for _ in range(ncross):
        a = int(rng.integers(0, k))
        b = int(rng.integers(k, nq))
        g = EXACT_GATES[int(rng.integers(0, 3))] if exact_gates else ["cx", "cz", "rzz", "cp", "cy", "crx"][int(rng.integers(0, 6))]
        qs = [a, b] if rng.integers(0, 2) else [b, a]
        items.append([g, qs, [_angle(rng)] if g in ("rzz", "cp", "crx") else []])
    for _ in range(int(rng.integers(0, 4))):
        part = range(0, k) if rng.integers(0, 2) else range(k, nq)
        if len(part) >= 2 and rng.integers(0, 2):
            a, b = [int(x) for x in rng.choice(list(part), 2, replace=False)]
            items.append([["cx", "cz"][int(rng.integers(0, 2))], [a, b], []])
        else:
            o = ["h", "x", "s", "rz"][int(rng.integers(0, 4))]
            items.append([o, [int(rng.choice(list(part)))], [_angle(rng)] if o == "rz" else []])
    for i in rng.permutation(len(items)):
        ops.append(items[int(i)])
    obs = []
    for _ in range(int(rng.integers(1, 4))):
        obs.append("".join("IXYZ"[int(rng.integers(0, 4))] for _ in range(nq)))
    form = "partitioned" if rng.integers(0, 4) else "single"
    return dict(kind="ge", nq=nq, ops=ops, labels=labels, obs=obs, form=form, num_samples=num_samples)


def gen_ge_finite_exact(rng):
    """finite num_samples for which _generate_qpd_weights certainly takes the all-exact branch (1/num_samples < 1/36 <= smallest
    probability of 1-2 cut cx/cz/cy gates, with margin), or num_samples < 1 (refused before anything is touched): no sampling either way"""
    # 37 > 36 (1 + 2^-40): clear of the rounding margin for two cuts; num_samples = 36 itself (p = 1/36 exactly) is inside the
    # band where the model makes no claim and belongs to the weights stream
    ns = [1e4, 1e6, float(2 ** 40), 37.0, 1000.0, 0.5][int(rng.integers(0, 6))]
    c = gen_ge(rng, num_samples=ns, exact_gates=True)
    c["exact"] = True
    return c


def gen_fi(rng):
    r = int(rng.integers(0, 27))
    if r < 13:
        return dict(kind="fi", gate=G0[r], params=[])
    if r < 20:
        return dict(kind="fi", gate=G1[r - 13], params=[_angle(rng)])
    if r < 25:
        return gen_fi_named(rng, GKAK[r - 20])
    # the three refusal paths of qpdbasis_from_instruction: not a two-qubit gate / unbound parameter
    return dict(kind="fi", gate=["h", "ccx", "rzz_unbound"][int(rng.integers(0, 3))], params=[])


def gen_fi_named(rng, g):
    n = dict(rzx=1, xx_plus_yy=2, xx_minus_yy=2, cu=4, unitary=1).get(g, 1)
    params = [int(rng.integers(0, 1000))] if g == "unitary" else [_angle(rng) for _ in range(n)]
    return dict(kind="fi", gate=g, params=params)


def gen_call(rng):
    """fill-in calls of a family (the fixed clusters already supply find_cuts and from_instruction calls)"""
    r = int(rng.integers(0, 20))
    if r < 5:
        return gen_fc(rng)
    if r < 11:
        return gen_ge(rng)
    if r < 15:
        return gen_ge_finite_exact(rng)
    return gen_fi(rng)


def gen_perturb(rng):
    rec = []
    for _ in range(int(rng.integers(0, 3))):
        k = ["np_seed", "np_adv", "np_choice", "py_seed", "py_adv"][int(rng.integers(0, 5))]
        rec.append([k, int(rng.integers(0, 2 ** 31)) if k.endswith("seed") else int(rng.integers(1, 50))])
    return rec


def call_key(spec):
    return json.dumps(spec, sort_keys=True)


def is_subject(spec):
    """calls the property makes a claim about (= exact_class of the model): find_cuts with an INTEGER seed, generation
    that cannot reach the sampler (num_samples = inf, or marked exact by the generator: finite all-exact / refused),
    from_instruction"""
    k = spec.get("kind")
    if k == "fc":
        return spec.get("seed") is not None
    if k == "ge":
        return spec.get("num_samples") is None or bool(spec.get("exact"))
    return k == "fi"


def gen_family(rng, maxlen):
    """distinct base calls + three histories over them.
    Every family holds a tie-heavy search with seed 0 and the SAME circuit and seed with other cut-kind options
    (option flipping); full families additionally hold a no-two-qubit-gate search followed by a search whose optimum
    is a wire cut, an exact (num_samples = inf) generation, and two from_instruction calls on the same parametrised gate
    name with different angles.
    Variants: base order (clusters in their critical order), permuted (own PYTHONHASHSEED), repeats (every call at
    least twice, the argument OBJECTS reused, plus an optional sampled generation as interference)."""
    small = rng.integers(0, 10) < 3 or maxlen < 12
    c0 = gen_fc_tie(rng, seed=0, force_seed=True)
    # option flipping on the same circuit and seed: a restricted action set FIRST, the full one after it
    kinds0 = (c0["gate_lo"], c0["wire_lo"])
    others = [k for k in [(False, True), (True, False), (True, True)] if k != kinds0]
    flips = [dict(c0, gate_lo=k[0], wire_lo=k[1]) for k in others]
    cluster = sorted([c0] + flips, key=lambda c: (c["gate_lo"] and c["wire_lo"], c["gate_lo"]))  # (F,T) (T,F) (T,T)
    if small:
        m = int(rng.integers(2, 6))
        base = cluster[-2:] if rng.integers(0, 2) else [cluster[0], cluster[2]]
        base = base[:m]
    else:
        m = int(rng.integers(8, max(9, min(11, maxlen // 2 + 1))))
        base = list(cluster)
        base += [gen_ge(rng), gen_fc_filler(rng), gen_fc_star(rng)]
        g = (G1 + ["rzx", "xx_plus_yy", "cu"])[int(rng.integers(0, len(G1) + 3))]
        base += [gen_fi_named(rng, g), gen_fi_named(rng, g)]
    seen = set()
    base = [c for c in base if not (call_key(c) in seen or seen.add(call_key(c)))]
    while len(base) < m:
        c = gen_call(rng)
        if call_key(c) not in seen:
            seen.add(call_key(c))
            base.append(c)
    m = len(base)
    hs = []
    hs.append(dict(hashseed="0", reuse=False, events=[dict(perturb=gen_perturb(rng), call=c) for c in base]))
    hs.append(dict(hashseed=str(int(rng.integers(1, 2 ** 32))), reuse=False,
                   events=[dict(perturb=gen_perturb(rng), call=base[int(i)]) for i in rng.permutation(m)]))
    # repeats: every call at least TWICE (2m <= maxlen by the choice of m), then random further repetitions
    L = int(rng.integers(2 * m, max(2 * m, maxlen) + 1))
    seq = [base[int(i)] for i in rng.permutation(m)] + [base[int(i)] for i in rng.permutation(m)] + \
        [base[int(rng.integers(0, m))] for _ in range(L - 2 * m)]
    seq = [seq[int(i)] for i in rng.permutation(len(seq))]
    evs = []
    for c in seq:
        evs.append(dict(perturb=gen_perturb(rng), call=c))
    # interference: a sampled (finite num_samples) generation somewhere, as "another call made before"
    if len(evs) < maxlen and rng.integers(0, 2):
        pos = int(rng.integers(0, len(evs)))
        evs.insert(pos, dict(perturb=[], call=gen_ge(rng, num_samples=[2, 3, 5][int(rng.integers(0, 3))])))
    hs.append(dict(hashseed="0", reuse=True, events=evs))
    fresh_hashseeds = [("0" if rng.integers(0, 2) else str(int(rng.integers(1, 2 ** 32)))) for _ in base]
    return base, hs, fresh_hashseeds


# ---------------- Coq emission ----------------

def S(s):
    assert '"' not in s
    return Raw('"' + s + '"')


def GN(x):
    return Raw("None") if x is None else Raw('(Some "' + str(x) + '")')


def coq_view(reg):
    actions = [(GN(k), (GN(n), [GN(g) for g in gs])) for k, n, gs in reg["actions"]]
    groups = [(GN(k), [GN(n) for n in ns]) for k, ns in reg["groups"]]
    return (((((actions, groups), [GN(x) for x in reg["cutopt"]]), [GN(x) for x in reg["lo"]]),
             [S(x) for x in reg["basis"]]), bool(reg["same"]))


KIND = dict(fc=0, ge=1, fi=2)


def kind_of(spec):
    """0 find_cuts, 1 generate(inf), 2 from_instruction, 5 generate(finite, all-exact or refused: a subject),
    4 generate(finite, may sample: interference only)"""
    if spec["kind"] == "ge" and spec["num_samples"] is not None:
        return 5 if spec.get("exact") else 4
    return KIND[spec["kind"]]


def build_case(events, results, fresh_specs, fresh_results, fresh_hashseeds=None):
    """events: recipes of one history; results: worker records; fresh_*: the distinct subject calls and their
    length-1-history records.  -> (coq_case, json_case)"""
    views, toks, args, rids = Interner(), Interner(), Interner(), Interner()
    view_objs = {}

    def obs(fp):
        vk = json.dumps(fp["reg"], sort_keys=True)
        vid = views(vk)
        view_objs[vid] = fp["reg"]
        return (vid, toks(("np", fp["np"])), toks(("py", fp["py"])))

    def arg_of(spec):
        s = dict(spec)
        s.pop("seed", None)
        return args(json.dumps(s, sort_keys=True))

    cev, jev = [], []
    for ev, rec in zip(events, results):
        spec = ev["call"]
        b, a = obs(rec["before"]), obs(rec["after"])
        rid = rids(rec["digest"])
        kind = kind_of(spec)
        seed = Opt(Zc(spec["seed"])) if spec.get("seed") is not None else Opt()
        cev.append((kind, (arg_of(spec), bool(spec.get("gate_lo", False)), bool(spec.get("wire_lo", False))), seed, b, a, rid))
        jev.append(dict(perturb=ev.get("perturb", []), call=spec, before=rec["before"], after=rec["after"],
                        digest=rec["digest"], status=rec["status"], summary=rec["summary"]))
    cfresh, jfresh = [], []
    for spec, rec in zip(fresh_specs, fresh_results):
        seed = Opt(Zc(spec["seed"])) if spec.get("seed") is not None else Opt()
        # the fresh interpreter must show the same registries (and leave everything alone) too
        cfresh.append((kind_of(spec), (arg_of(spec), bool(spec.get("gate_lo", False)), bool(spec.get("wire_lo", False))), seed,
                       obs(rec["before"]), obs(rec["after"]), rids(rec["digest"])))
        jfresh.append(dict(call=spec, digest=rec["digest"], status=rec["status"], summary=rec["summary"],
                           before=rec["before"], after=rec["after"],
                           hashseed=(fresh_hashseeds[len(jfresh)] if fresh_hashseeds else "0")))
    cviews = [(vid, coq_view(view_objs[vid])) for vid in sorted(view_objs)]
    ginfo = {}
    for spec, rec in list(zip([e["call"] for e in events], results)) + list(zip(fresh_specs, fresh_results)):
        if spec["kind"] == "ge":
            ns = spec["num_samples"]
            ginfo[arg_of(spec)] = ([[Qc(Fraction(n, d)) for n, d in b] for b in rec.get("coeffs", [])],
                                   Opt(Qc(Fraction(ns))) if ns is not None else Opt())
    coq_case = (cviews, cfresh, cev, sorted(ginfo.items(), key=lambda kv: kv[0]))
    json_case = dict(kind="history", events=jev, fresh=jfresh)
    return coq_case, json_case


# ---------------- registry streams (in-process; these only read the real registry) ----------------

GROUP_POOL = [None, "GateCut", "WireCut", "TwoQubitGates", "bogus", ""]


def rand_groups(rng):
    r = int(rng.integers(0, 8))
    if r == 0:
        return None
    if r == 1:
        return []
    return [GROUP_POOL[int(rng.integers(0, len(GROUP_POOL)))] for _ in range(int(rng.integers(1, 4)))]


def view_of_container(c):
    return dict(actions=[[k, a.get_name(), list(a.get_group_names())] for k, a in c.action_dict.items()],
                groups=[[k, [a.get_name() for a in l]] for k, l in c.group_dict.items()])


def coq_an_view(v):
    return ([(GN(k), (GN(n), [GN(g) for g in gs])) for k, n, gs in v["actions"]],
            [(GN(k), [GN(n) for n in ns]) for k, ns in v["groups"]])


def coq_groups(g):
    return Raw("None") if g is None else Raw("(Some " + coq([GN(x) for x in g]) + ")")


def run_copy(g1, g2, settings=None):
    from qiskit_addon_cutting.cut_finding.cutting_actions import disjoint_subcircuit_actions as reg
    from qiskit_addon_cutting.cut_finding.optimization_settings import OptimizationSettings
    before = view_of_container(reg)
    try:
        if settings is not None:
            g1 = OptimizationSettings(gate_lo=settings[0], wire_lo=settings[1]).get_cut_search_groups()
        c1 = reg.copy(g1)
        c2 = c1.copy(g2)
        shared = (c1 is reg) or (c2 is c1) or (c2.action_dict is c1.action_dict) or (c1.action_dict is reg.action_dict) \
            or (c1.group_dict is reg.group_dict) or any(c1.group_dict[k] is reg.group_dict[k] for k in c1.group_dict if k in reg.group_dict)
        r = ["ok", view_of_container(c2), bool(shared)]
    except AssertionError as e:
        r = ["crashed", "AssertionError: " + str(e)[:100]]
    except ValueError as e:
        r = ["refused", str(e)[:100]]
    except Exception as e:  # noqa: BLE001
        r = ["crashed", type(e).__name__ + ": " + str(e)[:100]]
    after = view_of_container(reg)
    return r, (before == after), g1


def run_weights(gates, ns, rng=None):
    """generate_qpd_weights on the bases of `gates`.  With rng: num_samples is drawn around the exact reciprocal of the
    smallest probability (boundary, +-1 ulp-ish, +-1e-9 relative, far above, far below, < 1, inf)."""
    import logging
    from qiskit_addon_cutting.qpd import QPDBasis
    from qiskit_addon_cutting.qpd import weights as W
    bases = [QPDBasis.from_instruction(_build_gate(g, p)) for g, p in gates]
    coeffs = [[Fraction(float(c)) for c in b.coeffs] for b in bases]
    p = Fraction(1)
    for cs in coeffs:
        kap = sum(abs(c) for c in cs)
        nz = [abs(c) / kap for c in cs if abs(c) / kap > Fraction(1, 10 ** 14)]
        p *= min(nz) if nz else 0
    where = "given"
    if rng is not None:
        mode = int(rng.integers(0, 9))
        recip = float(1 / p) if p else 1e6
        if mode == 0:
            ns, where = None, "inf"
        elif mode == 1:
            ns, where = recip, "boundary"
        elif mode == 2:
            ns, where = float(np.nextafter(recip, np.inf)), "boundary+ulp"
        elif mode == 3:
            ns, where = float(np.nextafter(recip, 0)), "boundary-ulp"
        elif mode == 4:
            ns, where = recip * (1 + 1e-9), "above by 1e-9"
        elif mode == 5:
            ns, where = recip * (1 - 1e-9), "below by 1e-9"
        elif mode == 6:
            ns, where = recip * float(rng.uniform(1.5, 100)), "far"
        elif mode == 7:
            ns, where = max(1.0, recip * float(rng.uniform(0.05, 0.7))), "far"
        else:
            ns, where = float(rng.uniform(0.01, 0.99)), "below 1"
    msgs = []

    class H(logging.Handler):
        def emit(self, record):
            msgs.append(record.getMessage())
    h = H()
    old_level = W.logger.level
    W.logger.addHandler(h)
    W.logger.setLevel(logging.INFO)
    st0 = np.random.get_state()
    try:
        try:
            W.generate_qpd_weights(bases, np.inf if ns is None else ns)
            branch = 0 if "All exact weights" in msgs else 1
        except ValueError:
            branch = 2
    finally:
        W.logger.removeHandler(h)
        W.logger.setLevel(old_level)
    st1 = np.random.get_state()
    moved = not (st0[2] == st1[2] and (st0[1] == st1[1]).all())
    return dict(coeffs=[[[c.numerator, c.denominator] for c in cs] for cs in coeffs], num_samples=ns, moved=moved, branch=branch, where=where)


def run_group(g1, settings=None):
    from qiskit_addon_cutting.cut_finding.cutting_actions import disjoint_subcircuit_actions as reg
    from qiskit_addon_cutting.cut_finding.optimization_settings import OptimizationSettings
    if settings is not None:
        g1 = OptimizationSettings(gate_lo=settings[0], wire_lo=settings[1]).get_cut_search_groups()
    grp = reg.copy(g1).get_group("TwoQubitGates")
    return dict(groups=g1, names=(None if grp is None else [a.get_name() for a in grp]))


class FakeAction:
    def __init__(self, name, groups):
        self._n, self._g = name, groups

    def get_name(self):
        return self._n

    def get_group_names(self):
        return list(self._g)


def run_define(actions):
    from qiskit_addon_cutting.cut_finding.search_space_generator import ActionNames
    c = ActionNames()
    try:
        for n, gs in actions:
            c.define_action(FakeAction(n, gs))
        return ["ok", view_of_container(c)]
    except AssertionError as e:
        return ["crashed", "AssertionError: " + str(e)[:100]]
    except Exception as e:  # noqa: BLE001
        return ["crashed", type(e).__name__ + ": " + str(e)[:100]]


def res_view(r):
    if r[0] == "ok":
        return Res("ok", coq_an_view(r[1]))
    return Res(r[0])


# ---------------- generate ----------------

def generate(rng, tier, outdir):
    w = CaseWriter(outdir, IMPORTS)
    quick = tier == "quick"
    n_fam = 12 if quick else 70
    maxlen = 20 if quick else 60
    n_copy = 150 if quick else 2000
    n_define = 150 if quick else 2000
    n_group = 60 if quick else 600
    n_weights = 120 if quick else 1500

    # ---- histories ----
    fams = [gen_family(rng, maxlen) for _ in range(n_fam)]
    jobs, index = [], []
    for fi, (base, hs, fhs) in enumerate(fams):
        for hi, h in enumerate(hs):
            index.append(("h", fi, hi))
            jobs.append(h)
        for bi, c in enumerate(base):
            index.append(("f", fi, bi))
            jobs.append(dict(hashseed=fhs[bi], reuse=False, events=[dict(perturb=[], call=c)]))
    outs = run_workers(jobs, timeout=(600 if quick else 1500))
    by = {ix: o for ix, o in zip(index, outs)}
    for ix, o in zip(index, outs):
        w.contract("worker interpreter finished (no crash, no hang)", "worker_error" not in o)
        if "worker_error" in o:
            w.notes.append(f"worker {ix}: {o['worker_error'][:300]}")
    n_calls = 0
    orng_ref = {}
    for fi, (base, hs, fhs) in enumerate(fams):
        fresh_results = [by[("f", fi, bi)]["events"][0] for bi in range(len(base))]
        for hi, h in enumerate(hs):
            recs = by[("h", fi, hi)]["events"]
            evs = h["events"]
            coq_case, json_case = build_case(evs, recs, base, fresh_results, fhs)
            json_case["family"], json_case["variant"] = fi, ["base", "permuted", "repeats"][hi]
            json_case["hashseed"], json_case["reuse"] = h["hashseed"], h["reuse"]
            subj = [e for e in evs if is_subject(e["call"])]
            w.add("history", "chk_history", coq_case, json_case,
                  nontrivial=(len(subj) >= 2), key=json.dumps([e["call"] for e in evs], sort_keys=True))
            n_calls += len(evs)
            w.count("history.length", len(evs))
            w.count("history.variant", json_case["variant"])
            w.count("history.hashseed", "0" if h["hashseed"] == "0" else "random")
            for e, r in zip(evs, recs):
                c = e["call"]
                kind = c["kind"] + ("/unseeded" if c["kind"] == "fc" and c["seed"] is None else "") + \
                    ("" if c["kind"] != "ge" or c["num_samples"] is None else "/finite-exact" if c.get("exact") else "/sampled")
                w.count("call.kind", kind)
                w.count("call.status", c["kind"] + ":" + r["status"])
                w.count("perturb", "+".join(sorted(set(p[0] for p in e["perturb"]))) or "none")
                if c["kind"] == "fc":
                    w.count("fc.seed", {0: "0", 1: "1", 2 ** 32 - 1: "2**32-1", None: "None", -1: "-1", 2 ** 32: "2**32",
                                        2 ** 64: "2**64", 2 ** 63 - 1: "2**63-1"}.get(c["seed"], "other int"))
                    names = {o[0] for o in c["ops"] if len(o[1]) >= 2}
                    w.count("fc.shape", "no 2q gate" if not names else "tie-heavy ring" if len(names) == 1 and len(c["ops"]) >= c["nq"] >= 4
                            and len({o[0] for o in c["ops"]}) == 1 else "star" if len(c["ops"]) >= 4 and c["ops"][-2][0] == "h" and len(names) == 1 else "random")
                    w.count("fc.cut_kinds", f"gate_lo={c['gate_lo']},wire_lo={c['wire_lo']}")
                    w.count("fc.nq", c["nq"])
                if c["kind"] == "fi":
                    w.count("fi.gate", c["gate"])
                if "orng" in r:
                    ok = r["orng"][0] and orng_ref.setdefault(c["seed"], r["orng"][1]) == r["orng"][1] \
                        and r["after_probe"] == r["after"]["np"]
                    w.contract("O-rng: default_rng(int seed) is a function of the seed (same stream twice, and in every interpreter) "
                               "and does not touch the global state", ok)
                if "arg_unchanged" in r:
                    w.contract("find_cuts leaves the circuit object it was given as it was (instruction list before == after the call)",
                               r["arg_unchanged"])
                    w.count("fc.object_use", ("objects reused: " if h["reuse"] else "fresh objects: ") +
                            ("optimum has wire cuts only (no gate replaced)" if r.get("wire_only") else "other"))
                if "probs_model" in r:
                    w.contract("QPDBasis.probabilities == |coeffs| / sum|coeffs|, kappa == sum|coeffs| (Process.probabilities)", r["probs_model"])
                if c["kind"] == "ge" and c["num_samples"] is not None:
                    w.count("finite_gen.np_state_moved", ("exact:" if c.get("exact") else "sampled:") + str(r["before"]["np"] != r["after"]["np"]))
        for o in [by[("f", fi, bi)] for bi in range(len(base))] + [by[("h", fi, hi)] for hi in range(len(hs))]:
            w.contract("typing.cast(T, x) is x", o["contracts"]["cast_identity"])
        for bi in range(len(base)):
            w.count("fresh.hashseed", "0" if fhs[bi] == "0" else "random")
        n_calls += len(base)

    # ---- ActionNames.copy on the real registry ----
    for it in range(n_copy):
        mode = int(rng.integers(0, 4))
        settings = None
        g1, g2 = rand_groups(rng), rand_groups(rng)
        if mode == 0:
            settings = (bool(rng.integers(0, 2)), bool(rng.integers(0, 2)))
            g2 = None
        r, untouched, g1_used = run_copy(g1, g2, settings)
        w.contract("ActionNames.copy leaves the copied registry untouched and shares no container with it",
                   untouched and (r[0] != "ok" or not r[2]))
        w.add("copy", "chk_copy",
              ((Raw("None") if settings is None else Raw(f"(Some ({coq(settings[0])}, {coq(settings[1])}))")),
               coq_groups(g1_used), coq_groups(g2), res_view(r)),
              dict(kind="copy", settings=settings, g1=g1_used, g2=g2, impl=r),
              nontrivial=(r[0] == "ok" and len(r[1]["actions"]) > 0))
        w.count("copy.outcome", r[0])
        w.count("copy.size", len(r[1]["actions"]) if r[0] == "ok" else -1)

    # ---- generate_qpd_weights: the branch taken and whether numpy's global state moves, vs reaches_sampler ----
    specs = [(["cx"] * 5, 7776.0), (["cx"] * 5, 7777.0), (["cx"] * 5, 7775.0), (["cx"] * 5, None), (["cz"] * 4, 1296.0),
             (["cx"] * 3, 216.0), (["cx", "cy"], 36.0), (["cx"], 6.0), (["cx"], 0.5), (["cx", "cz"], 35.999999999)]
    for it in range(n_weights):
        if it < len(specs):
            gates, ns = specs[it]
            gates = [[g, []] for g in gates]
        else:
            k = int(rng.integers(1, 6))
            gates = []
            for _ in range(k):
                g = ["cx", "cz", "cy", "ch", "rzz", "cp", "crx", "rxx", "csx"][int(rng.integers(0, 9))]
                gates.append([g, [_angle(rng)] if g in ("rzz", "cp", "crx", "rxx") else []])
            ns = None
        r = run_weights(gates, ns, rng if it >= len(specs) else None)
        w.add("weights", "chk_weights",
              ([[Qc(Fraction(n, d)) for n, d in b] for b in r["coeffs"]],
               (Opt(Qc(Fraction(r["num_samples"]))) if r["num_samples"] is not None else Opt()), bool(r["moved"]), int(r["branch"])),
              dict(kind="weights", gates=gates, num_samples=r["num_samples"], moved=r["moved"], branch=r["branch"], where=r["where"]),
              nontrivial=(r["where"] != "far"))
        w.count("weights.branch", ["all exact", "tail", "ValueError"][r["branch"]] + ("/np moved" if r["moved"] else ""))
        w.count("weights.num_samples_vs_threshold", r["where"])

    # ---- get_group("TwoQubitGates") on a filtered copy: the action list the search expands with ----
    for it in range(n_group):
        if it < 4:
            st_ = (bool(it & 1), bool(it & 2))
        else:
            st_ = (bool(rng.integers(0, 2)), bool(rng.integers(0, 2))) if rng.integers(0, 2) else None
        g1 = rand_groups(rng)
        r = run_group(g1, st_)
        w.add("group", "chk_group",
              ((Raw("None") if st_ is None else Raw(f"(Some ({coq(st_[0])}, {coq(st_[1])}))")), coq_groups(r["groups"]),
               (Raw("None") if r["names"] is None else Raw("(Some " + coq([GN(x) for x in r["names"]]) + ")"))),
              dict(kind="group", settings=st_, groups=r["groups"], names=r["names"]), nontrivial=(r["names"] is not None))
        w.count("group.size", -1 if r["names"] is None else len(r["names"]))

    # ---- define_action sequences on a fresh container ----
    names = [None, "A", "B", "C", "CutTwoQubitGate", ""]
    for it in range(n_define):
        k = int(rng.integers(0, 6))
        pool = [names[int(i)] for i in rng.permutation(len(names))]
        acts = []
        for j in range(k):
            n = pool[j] if rng.integers(0, 8) else pool[int(rng.integers(0, max(1, j)))]
            gs = [GROUP_POOL[int(rng.integers(0, len(GROUP_POOL)))] for _ in range(int(rng.integers(0, 4)))]
            acts.append([n, gs])
        r = run_define(acts)
        w.add("define", "chk_define", ([(GN(n), [GN(g) for g in gs]) for n, gs in acts], res_view(r)),
              dict(kind="define", actions=acts, impl=r), nontrivial=(len(acts) >= 2))
        w.count("define.outcome", r[0])

    # ---- the property-level oracle must accept what the unchanged tree produced (it is also run by `judgeall`) ----
    flagged = []
    for gname, g in w.groups.items():
        for _cq, jc in g["cases"]:
            v = judge(jc)
            ok = v.get("violates") is False
            w.contract("judge_accepts_clean_case", ok)
            if not ok and len(flagged) < 3:
                flagged.append(f"{gname}: {str(v.get('detail'))[:300]}")
    w.notes.extend("judge flagged: " + f for f in flagged)

    return w.finish(
        rule="history: families of 2-10 distinct calls. find_cuts: random cx/cz/swap circuits (some rzz/cp/rzx gates, full-width barriers, "
             "rarely a 3-qubit gate) of 2-6 qubits with random width, cut kinds, max_gamma, max_backjumps; 2/5 tie-heavy rings of identical "
             "cx/cz gates on 4-6 qubits at the widths where the random tie-break decides which cut set is returned; every family holds such a "
             "ring with seed 0 AND the same circuit and seed under the other cut-kind options (option flipping, restricted set first); full "
             "families also hold a search on a circuit without two-qubit gates followed by a circuit whose optimum is WIRE CUTS ONLY (no gate replaced: a star "
             "with one wire cut at the hub, or two blocks of repeated swap/cx gates sharing one qubit at width 2; the gate_lo=False flips are wire-only too), and "
             "two from_instruction calls on the same parametrised gate name with different angles. Integer seeds with 0 (falsy), 1, 2**32-1 "
             "over-represented, also 2**32, 2**63-1, 2**64, -1 (refused), the same seed shared by several calls (1/16 seed=None, 1/40 width 0). "
             "generate_cutting_experiments on 2-4 qubit problems with 1-2 cut gates, partitioned and single-circuit forms, num_samples = inf, or "
             "finite with the all-exact branch guaranteed (cx/cz/cy cuts, num_samples in {37,1e3,1e4,1e6,2**40}) or 0.5 (refused). "
             "QPDBasis.from_instruction on the 20 registered gates, 5 KAK-path gates and three refused inputs (1-qubit, 3-qubit, unbound parameter). "
             "Each family runs as three histories, every history in its own interpreter: base order (PYTHONHASHSEED 0), permuted (PYTHONHASHSEED "
             "drawn per history), every call at least twice with the ARGUMENT OBJECTS REUSED plus random repeats up to the length bound and an "
             "optional sampled generation as interference (the result recorded for a find_cuts call is always what it RETURNED; whether it left the circuit object "
             "it was given unchanged is monitored separately, so a repeated call on a reused object that the first call wrote into shows up as a different result); random reseeding/advancing of numpy's and Python's global generators before each call; "
             "every distinct call alone in a fresh interpreter (half of them with a drawn PYTHONHASHSEED). "
             "distinct = distinct call sequence; non-trivial = at least two calls the property speaks about. "
             "weights: generate_qpd_weights on 1-5 six-term bases with num_samples at, one ulp around, 1e-9 around, far above/below the exact "
             "reciprocal of the smallest probability, < 1 and inf (incl. five cx bases at 7776): branch taken and movement of numpy's global state "
             "vs reaches_sampler on the real coefficients. group: get_group('TwoQubitGates') of copies under the four option settings and random group lists vs ProcessCF.two_qubit_group and "
             "the search model's search_actions. copy/define: random group lists (None, [], known, unknown) on the real registry / random action sequences with duplicate names.",
        extra=dict(extra=dict(interpreters=len(jobs), calls_executed=n_calls)))


# ---------------- property-level oracle ----------------

def judge(case):
    """Same call (same arguments, same integer seed) => same canonical result, whatever the position in the history,
    the state of the global generators, or the interpreter.  Uses only what the implementation returned (the JSON case);
    never raises."""
    try:
        return _judge(case)
    except Exception as e:  # noqa: BLE001
        return dict(violates=None, detail=f"case not judgeable: {type(e).__name__}: {e}")


def _judge(case):
    if case.get("kind") != "history":
        return dict(violates=False, detail="registry bookkeeping case; the property text is silent (model/implementation disagreement only)")
    seen = {}
    for f in case.get("fresh", []):
        if is_subject(f["call"]):
            seen.setdefault(call_key(f["call"]), []).append((f"fresh interpreter (PYTHONHASHSEED={f.get('hashseed', '0')})",
                                                             f["digest"], f["summary"]))
    for i, e in enumerate(case["events"]):
        if is_subject(e["call"]):
            seen.setdefault(call_key(e["call"]), []).append((f"history position {i}", e["digest"], e["summary"]))
    for k, obs in seen.items():
        ds = {d for _, d, _ in obs}
        if len(ds) > 1:
            return dict(violates=True, detail=f"call {k[:400]} returned different results: " +
                        "; ".join(f"{w}: {d} ({s})" for w, d, s in obs[:8]))
    # "… or what state the global random generators are in" / "a pure function of its arguments": a call of the three
    # classes that moves one of the global generators makes every later consumer of that generator history dependent
    for where, recs in (("history position", case["events"]), ("fresh interpreter", case.get("fresh", []))):
        for i, e in enumerate(recs):
            if is_subject(e["call"]):
                for gen in ("np", "py"):
                    if e["before"][gen] != e["after"][gen]:
                        return dict(violates=True, detail=f"{where} {i}: call {call_key(e['call'])[:300]} changed the state of "
                                    f"{'numpy.random' if gen == 'np' else 'random'}'s global generator")
    return dict(violates=False, detail=f"{len(seen)} distinct calls, all repetitions and fresh-interpreter runs agree; global generators untouched")


def rerun(case):
    if case["kind"] == "copy":
        r, _, g1 = run_copy(case["g1"], case["g2"], tuple(case["settings"]) if case["settings"] else None)
        case["impl"] = r
        return case
    if case["kind"] == "define":
        case["impl"] = run_define(case["actions"])
        return case
    if case["kind"] == "weights":
        r = run_weights(case["gates"], case["num_samples"])
        case.update(moved=r["moved"], branch=r["branch"])
        return case
    if case["kind"] == "group":
        r = run_group(case["groups"], tuple(case["settings"]) if case["settings"] else None)
        case["names"] = r["names"]
        return case
    events = [dict(perturb=e["perturb"], call=e["call"]) for e in case["events"]]
    # the history once (same PYTHONHASHSEED and instance-reuse mode as recorded); every distinct call in THREE fresh
    # interpreters: recorded hash seed, hash seed 0, random hash seed (their global generators are seeded from OS entropy,
    # so a dependence on them shows up as disagreement between fresh runs with high probability)
    distinct, hs = [], {}
    for f in case["fresh"]:
        if call_key(f["call"]) not in [call_key(c) for c in distinct]:
            distinct.append(f["call"])
            hs[call_key(f["call"])] = str(f.get("hashseed", "0"))
    fresh = [(c, h) for c in distinct for h in (hs[call_key(c)], "0", "random")]
    outs = run_workers([dict(hashseed=str(case.get("hashseed", "0")), reuse=bool(case.get("reuse")), events=events)] +
                       [dict(hashseed=h, reuse=False, events=[dict(perturb=[], call=c)]) for c, h in fresh], full=True)
    fulls = {}
    for e, r in zip(case["events"], outs[0]["events"]):
        e.update(before=r["before"], after=r["after"], digest=r["digest"], status=r["status"], summary=r["summary"])
        fulls.setdefault(call_key(e["call"]), []).append(r["full"])
    case["fresh"] = []
    for (c, h), o in zip(fresh, outs[1:]):
        r = o["events"][0]
        case["fresh"].append(dict(call=c, before=r["before"], after=r["after"], digest=r["digest"], status=r["status"],
                                  summary=r["summary"], hashseed=h))
        fulls.setdefault(call_key(c), []).append(r["full"])
    diffs = []
    for k, fl in fulls.items():
        for x in fl[1:]:
            if x != fl[0]:
                diffs.append(dict(call=json.loads(k), one=json.dumps(fl[0])[:1500], other=json.dumps(x)[:1500]))
                break
    case["differences"] = diffs[:3]
    return case


if __name__ == "__main__":
    if len(sys.argv) == 4 and sys.argv[1] == "--worker":
        worker(sys.argv[2], sys.argv[3])
    else:
        print("usage: c09.py --worker in.json out.json")
        sys.exit(2)

"""C15 correspondence: QPDBasis.from_instruction(...).coeffs / kappa / probabilities / overhead and the
`coeffs` setter  vs  Model/Kappa.v (whose coefficient expressions are regenerated from the source).

Streams
  named      all 20 registered names; parameterised ones at special angles, near-special angles, random
             angles in [-8pi, 8pi] and rational points of the unit circle            -> chk_named
  kak        gates that go through the KAK path (rzx, xx_plus_yy, xx_minus_yy, local conjugations,
             Haar-random unitaries): Weyl coordinates -> u -> 58 coefficients          -> chk_kak
  kakfam     rzx / xx_plus_yy / xx_minus_yy against the documented closed form          -> chk_kak_family
  conj       registered gates conjugated by random local unitaries (UnitaryGate)        -> chk_conj
  basis      QPDBasis(maps, coeffs) with arbitrary dyadic coefficient vectors + reassignments
             (mostly valid; malformed: empty maps, 3-tuples, ragged maps, wrong lengths) -> chk_basis
  kakseq     histories: several locally conjugated registered gates of different families requested back to back
             on temporary UnitaryGate objects in ONE process; every answer must be the closed form of ITS gate
             (an answer must not depend on what was requested before)                   -> chk_conj
"""
from __future__ import annotations

import math
from fractions import Fraction

import numpy as np
from qiskit.circuit.library import (
    CHGate, CPhaseGate, CRXGate, CRYGate, CRZGate, CSdgGate, CSGate, CSXGate, CXGate, CYGate, CZGate,
    DCXGate, ECRGate, RXXGate, RYYGate, RZXGate, RZZGate, SwapGate, UnitaryGate, XGate, XXMinusYYGate,
    XXPlusYYGate, YGate, iSwapGate,
)
from qiskit.quantum_info import Operator, random_unitary

import qiskit_addon_cutting.qpd.decompositions as D
from qiskit_addon_cutting.instructions import Move
from qiskit_addon_cutting.qpd import QPDBasis

from common import CaseWriter, Opt, Qc, Raw

IMPORTS = ("From Coq Require Import String QArith.\n"
           "From CKT Require Import Common.Base Model.Kappa Corr.C15Corr.\n"
           "Close Scope Q_scope.\nOpen Scope string_scope.")

CASE_TYPES = {
    "chk_named": "string * option (Q * Q) * Q * Q * obs",
    "chk_kak": "list Q * list Q * list (Q * Q) * list (Q * Q) * obs",
    "chk_kak_family": "nat * Q * Q",
    "chk_conj": "string * Q * Q * Q",
    "chk_basis": "list nat * list Q * list (list Q) * list (bool * option obs)",
    "chk_gate_mat": "nat * Q * Q * Q * Q * list (list (Q * Q))",
}

PI = math.pi

# name -> constructor; parameterised names take theta
PARAM = {
    "rxx": RXXGate, "ryy": RYYGate, "rzz": RZZGate, "crx": CRXGate, "cry": CRYGate, "crz": CRZGate, "cp": CPhaseGate,
}
FIXED = {
    "swap": SwapGate, "iswap": iSwapGate, "dcx": DCXGate, "cs": CSGate, "csdg": CSdgGate, "csx": CSXGate,
    "csxdg": lambda: CSXGate().inverse(), "cx": CXGate, "cy": CYGate, "cz": CZGate, "ch": CHGate, "ecr": ECRGate,
    "move": Move,
}
# the harness' CLAIM of theta_prime = p*theta + q*pi; chk_named confirms it against the model
AFF = {
    "rxx": (Fraction(-1, 2), Fraction(0)), "ryy": (Fraction(-1, 2), Fraction(0)), "rzz": (Fraction(-1, 2), Fraction(0)),
    "crx": (Fraction(1, 4), Fraction(0)), "cry": (Fraction(1, 4), Fraction(0)), "crz": (Fraction(1, 4), Fraction(0)),
    "cp": (Fraction(1, 4), Fraction(0)),
    "cs": (Fraction(0), Fraction(1, 8)), "csdg": (Fraction(0), Fraction(-1, 8)),
    "csx": (Fraction(0), Fraction(1, 8)), "csxdg": (Fraction(0), Fraction(-1, 8)),
}


CONTROLLED = ("crx", "cry", "crz", "cp", "cs", "csdg", "csx", "cx", "cy", "cz", "ch")


def theta_arg(theta, form):
    """The object handed to the gate constructor; the case records float(<that object>) as theta."""
    if form == "int":
        return int(theta)
    if form == "float32":
        return np.float32(theta)
    return theta


def mk_gate(name, theta=None, form=None, ctrl0=False):
    kw = dict(ctrl_state=0) if ctrl0 else {}
    if name in PARAM:
        return PARAM[name](theta_arg(theta, form), **kw)
    if ctrl0:
        return {"cs": CSGate, "csdg": CSdgGate, "csx": CSXGate, "cx": CXGate, "cy": CYGate, "cz": CZGate, "ch": CHGate}[name](**kw)
    return FIXED[name]()


def fr(x):
    x = float(x)
    if not math.isfinite(x):
        raise ValueError(f"non-finite float {x}")
    return Fraction(x)


def qf(x):
    """Coq literal of a binary64 value, exactly: fl m e = m * 2^e (Corr/C15Corr.v)."""
    f = fr(x)
    if f == 0:
        return Raw("(fl 0 0)")
    e = -(f.denominator.bit_length() - 1)
    m = f.numerator
    while m % 2 == 0 and e < 0:
        m //= 2
        e += 1
    assert Fraction(m) * Fraction(2) ** e == f
    return Raw(f"(fl ({m}) ({e}))")


def qq(fraction):
    """dyadic rationals as fl literals, others as Qmake."""
    d = fraction.denominator
    if d & (d - 1) == 0:
        return qf(float(fraction)) if Fraction(float(fraction)) == fraction else Qc(fraction)
    return Qc(fraction)


def observe(b):
    return dict(coeffs=[float(c) for c in b.coeffs], kappa=float(b.kappa),
                probs=[float(p) for p in np.asarray(b.probabilities)], overhead=float(b.overhead))


def obs_finite(o):
    return ("crashed" not in o) and all(math.isfinite(x) for x in list(o["coeffs"]) + list(o["probs"]) + [o["kappa"], o["overhead"]])


BAD_OBS = ([], Raw("(fl 0 0)"), [], Raw("(fl 0 0)"))  # matches no model output: the case is then judged


def coq_obs(o):
    if not obs_finite(o):
        return BAD_OBS
    return ([qf(c) for c in o["coeffs"]], qf(o["kappa"]), [qf(p) for p in o["probs"]], qf(o["overhead"]))


def guarded(fn, case):
    """Run an implementation driver; an exception of the implementation becomes a recorded outcome."""
    try:
        return fn(case)
    except Exception as e:  # noqa: BLE001
        case = dict(case)
        case["impl"] = dict(crashed=f"{type(e).__name__}: {str(e)[:200]}")
        return case


def theta_prime(name, theta):
    p, q = AFF[name]
    return float(p) * (theta if theta is not None else 0.0) + float(q) * PI


# ------------------------------------------------------------------------------------------------
# recording wrappers around the two internal calls of the KAK path (harness process only)
# ------------------------------------------------------------------------------------------------

REC = {}
_orig_weyl = D.TwoQubitWeylDecomposition
_orig_u = D._u_from_thetavec


def _rec_weyl(*a, **k):
    d = _orig_weyl(*a, **k)
    REC["d"] = d
    return d


def _rec_u(theta):
    u = _orig_u(theta)
    REC["theta"] = [float(t) for t in theta]
    REC["u"] = [complex(z) for z in u]
    return u


D.TwoQubitWeylDecomposition = _rec_weyl
D._u_from_thetavec = _rec_u

_X = np.array([[0, 1], [1, 0]], complex)
_Y = np.array([[0, -1j], [1j, 0]], complex)
_Z = np.diag([1, -1]).astype(complex)
_XX, _YY, _ZZ = np.kron(_X, _X), np.kron(_Y, _Y), np.kron(_Z, _Z)


def _exp_nonlocal(a, b, c):
    # XX, YY, ZZ commute; exp(i t P) = cos t + i sin t P
    out = np.eye(4, dtype=complex)
    for t, P in ((a, _XX), (b, _YY), (c, _ZZ)):
        out = out @ (math.cos(t) * np.eye(4) + 1j * math.sin(t) * P)
    return out


def kak_run(mat):
    """Run the implementation on UnitaryGate-like matrix; return (basis observations, recorded oracle output)."""
    REC.clear()
    b = QPDBasis.from_instruction(UnitaryGate(mat, check_input=False))
    return b, _rec_info(mat)


def _rec_info(mat):
    d = REC["d"]
    a, b_, c = float(d.a), float(d.b), float(d.c)
    recon = np.exp(1j * float(d.global_phase)) * np.kron(d.K1l, d.K1r) @ _exp_nonlocal(a, b_, c) @ np.kron(d.K2l, d.K2r)
    err = float(np.abs(recon - np.asarray(mat)).max())
    return dict(abc=[a, b_, c], theta_passed=REC["theta"], u=[[z.real, z.imag] for z in REC["u"]], recon_err=err)


def lams_of(abc):
    a, b, c = abc
    return [-(a + b + c), -a + b + c, -b + c + a, -c + a + b]


def coq_kak_case(info, o):
    abc = info["theta_passed"]
    lams = lams_of(abc)
    cs = [(qf(math.cos(l)), qf(math.sin(l))) for l in lams]
    u = [(qf(z[0]), qf(z[1])) for z in info["u"]]
    return ([qf(t) for t in abc], [qf(l) for l in lams], cs, u, coq_obs(o))


# ------------------------------------------------------------------------------------------------
# angle sets
# ------------------------------------------------------------------------------------------------


def special_angles():
    out = [k * PI / 2 for k in range(-16, 17)]
    out += [s * f * PI for s in (1, -1) for f in (0.25, 0.75, 1 / 3, 0.125, 2.25, 5.5)]
    return out


def near_special(rng, n):
    out = []
    for _ in range(n):
        base = int(rng.integers(-16, 17)) * PI / 2
        eps = float(rng.choice([1e-3, 1e-4, 7e-5, 3e-5, 1e-5, 1e-6, 1e-7, 1e-9])) * float(rng.choice([-1, 1]))
        out.append(base + eps)
    return out


NEAR_DELTAS = [s * d for d in (1e-2, 3e-3, 1e-3, 1e-4, 1e-6, 1e-9) for s in (1, -1)]


def near_grid(per_k, shift=0):
    """theta = k*pi/2 + delta, k = -16..16; per_k of the 12 deltas for each k, rotating so that all are covered."""
    out = []
    for k in range(-16, 17):
        for j in range(per_k):
            out.append(k * PI / 2 + NEAR_DELTAS[(shift + (k + 16) * per_k + j) % len(NEAR_DELTAS)])
    return out


def near_grid48(rng, n):
    """theta = k*pi/4 (k odd) or k*pi/8 (k odd) + delta: the CS/T-like points of the rotation families."""
    out = []
    for i in range(n):
        if i % 2 == 0:
            base = (2 * int(rng.integers(-16, 16)) + 1) * PI / 4
        else:
            base = (2 * int(rng.integers(-32, 32)) + 1) * PI / 8
        out.append(base)
        out.append(base + NEAR_DELTAS[int(rng.integers(0, len(NEAR_DELTAS)))])
    return out


def random_angles(rng, n):
    return [float(rng.uniform(-8 * PI, 8 * PI)) for _ in range(n)]


def circle_point(rng):
    """Rational point of the unit circle, t = n/d."""
    d = int(rng.integers(1, 40))
    n = int(rng.integers(-120, 121))
    t = Fraction(n, d)
    return (1 - t * t) / (1 + t * t), 2 * t / (1 + t * t)


def mat_json(m):
    return [[[float(z.real), float(z.imag)] for z in row] for row in np.asarray(m)]


def mat_of(j):
    return np.array([[complex(z[0], z[1]) for z in row] for row in j])


# ------------------------------------------------------------------------------------------------
# implementation runs for each case kind (shared by generate and rerun)
# ------------------------------------------------------------------------------------------------


def run_named(case):
    g = mk_gate(case["name"], case.get("theta"), case.get("form"))
    b = QPDBasis.from_instruction(g)
    case["impl"] = observe(b)
    return case


def kak_gate(case):
    kind = case["gate"]
    if kind == "rzx":
        return RZXGate(case["theta"]).to_matrix()
    if kind == "xx_plus_yy":
        return XXPlusYYGate(case["theta"], case["beta"]).to_matrix()
    if kind == "xx_minus_yy":
        return XXMinusYYGate(case["theta"], case["beta"]).to_matrix()
    if kind == "unitary":
        return mat_of(case["matrix"])
    if kind == "open":
        return Operator(mk_gate(case["name"], case.get("theta"), ctrl0=True)).data
    if kind == "conj":
        G = Operator(mk_gate(case["name"], case.get("theta"))).data
        L1, L2 = mat_of(case["left"]), mat_of(case["right"])
        return L1 @ G @ L2
    raise ValueError(kind)


def run_kak(case):
    REC.clear()
    kind = case["gate"]
    if kind == "rzx":
        b = QPDBasis.from_instruction(RZXGate(case["theta"]))
        mat = RZXGate(case["theta"]).to_matrix()
    elif kind == "xx_plus_yy":
        b = QPDBasis.from_instruction(XXPlusYYGate(case["theta"], case["beta"]))
        mat = XXPlusYYGate(case["theta"], case["beta"]).to_matrix()
    elif kind == "xx_minus_yy":
        b = QPDBasis.from_instruction(XXMinusYYGate(case["theta"], case["beta"]))
        mat = XXMinusYYGate(case["theta"], case["beta"]).to_matrix()
    elif kind == "open":  # a real Gate class whose name (cx_o0, crz_o0, ...) is not registered
        mat = kak_gate(case)
        b = QPDBasis.from_instruction(mk_gate(case["name"], case.get("theta"), ctrl0=True))
    else:
        mat = kak_gate(case)
        b = QPDBasis.from_instruction(UnitaryGate(mat, check_input=False))
    case["impl"] = observe(b)
    # the harness' own instrumentation; if the implementation no longer goes through the two wrapped calls this is a
    # harness problem (contract `harness hook`), never a verdict about the implementation
    case["oracle"] = _rec_info(mat) if ("d" in REC and "u" in REC and "theta" in REC) else None
    if case.get("twin") is not None:  # a second, locally equivalent gate: kappa must agree
        m2 = mat_of(case["twin"]["left"]) @ mat @ mat_of(case["twin"]["right"])
        b2 = QPDBasis.from_instruction(UnitaryGate(m2, check_input=False))
        case["twin"]["kappa"] = float(b2.kappa)
    return case


def run_kakseq(case):
    """A history of KAK-path requests: all matrices are built first, then each one is wrapped in a temporary
    UnitaryGate and requested, one after another (the way a caller iterating over a circuit does it)."""
    mats = [kak_gate(st) for st in case["steps"]]
    out = []
    for m in mats:
        out.append(_try_obs(lambda m=m: QPDBasis.from_instruction(UnitaryGate(m, check_input=False))))
    case = dict(case)
    case["impl"] = out
    return case


MAPS1 = lambda n: [([XGate()],) for _ in range(n)]  # noqa: E731


def build_maps(arities):
    return [tuple([YGate()] if (i + j) % 2 else [] for j in range(a)) for i, a in enumerate(arities)]


def in_container(vec, kind):
    if kind == "tuple":
        return tuple(vec)
    if kind == "ndarray":
        return np.array(vec, dtype=float)
    if kind == "int" and all(float(x).is_integer() for x in vec):
        return [int(x) for x in vec]
    if kind == "intarray" and all(float(x).is_integer() for x in vec):
        return np.array([int(x) for x in vec])
    return list(vec)


def run_basis(case):
    steps = []
    maps = build_maps(case["arities"])
    cont = case.get("containers") or ["list"] * (1 + len(case["ops"]))
    try:
        b = QPDBasis(maps, in_container(case["c0"], cont[0]))
    except ValueError as e:
        case["impl"] = [dict(refused=True, obs=None, msg=str(e)[:120])]
        return case
    except Exception as e:  # noqa: BLE001
        case["impl"] = [dict(refused=False, obs=None, crashed=f"{type(e).__name__}: {e}"[:160])]
        return case
    steps.append(dict(refused=False, obs=observe(b)))
    for ci, c in enumerate(case["ops"]):
        try:
            b.coeffs = in_container(c, cont[1 + ci])
            steps.append(dict(refused=False, obs=observe(b)))
        except ValueError as e:
            steps.append(dict(refused=True, obs=observe(b), msg=str(e)[:120]))
        except Exception as e:  # noqa: BLE001
            steps.append(dict(refused=False, obs=None, crashed=f"{type(e).__name__}: {e}"[:160]))
            break
    case["impl"] = steps
    return case


def _try_obs(f):
    try:
        return observe(f())
    except Exception as e:  # noqa: BLE001
        return dict(crashed=f"{type(e).__name__}: {str(e)[:200]}")


def run_sequence(case):
    """Build basis A, read it, edit A.coeffs[k] in place, reassign A.coeffs through the setter, then build the
    target bases afresh.  The in-place edit is undone at the end (on the very list object that was edited)."""
    sc = case["script"]
    gate_a = mk_gate(sc["a_name"], sc["a_theta"])
    a = QPDBasis.from_instruction(gate_a)
    before = observe(a)
    lst = a.coeffs
    inplace, old = "no", None
    try:
        old = lst[sc["k"]]
        lst[sc["k"]] = sc["x"]
        inplace = "edited"
    except IndexError:
        inplace = "index"
    except Exception:  # noqa: BLE001  tuple (TypeError), read-only array (ValueError), ...: the container is immutable
        inplace = "immutable"
    try:
        a.coeffs = list(sc["newvec"])
        reassigned = _try_obs(lambda: a)
        # a wrong-length assignment afterwards must raise ValueError and change nothing
        refused = None
        try:
            a.coeffs = list(sc["newvec"]) + [1.0]
            refused = dict(refused=False, obs=_try_obs(lambda: a))
        except ValueError:
            refused = dict(refused=True, obs=_try_obs(lambda: a))
        except Exception as e:  # noqa: BLE001
            refused = dict(refused=False, obs=dict(crashed=f"{type(e).__name__}: {str(e)[:160]}"))
        fresh = [_try_obs(lambda t=t: QPDBasis.from_instruction(gate_a if t.get("same_instance") else mk_gate(t["name"], t["theta"])))
                 for t in case["targets"]]
    finally:
        if inplace == "edited":
            lst[sc["k"]] = old
    case = dict(case)
    case["impl"] = dict(before=before, inplace=inplace, reassigned=reassigned, refused=refused, fresh=fresh)
    return case


GATEMAT = {"rzx": 0, "xx_plus_yy": 1, "xx_minus_yy": 2}


def run_gatemat(case):
    """Gate.to_matrix() of the named KAK-path gates (tie of the hand-written matrices of Model/KappaGates.v)."""
    g = case["gate"]
    if g == "rzx":
        m = RZXGate(case["theta"]).to_matrix()
    elif g == "xx_plus_yy":
        m = XXPlusYYGate(case["theta"], case["beta"]).to_matrix()
    else:
        m = XXMinusYYGate(case["theta"], case["beta"]).to_matrix()
    case = dict(case)
    case["impl"] = mat_json(m)
    return case


def run_sameobj(case):
    """Take basis.coeffs, edit elements of that very object in place, assign the SAME object back through the
    setter, then read kappa / probabilities / overhead.  (The edit alone does not run the setter - out of scope -
    but the assignment does: afterwards kappa must be sum|coeffs| of the edited vector.)"""
    if case["source"] == "gate":
        b = QPDBasis.from_instruction(mk_gate(case["name"]))
    else:
        b = QPDBasis(build_maps(case["arities"]), in_container(case["c0"], case["container"]))
    first = observe(b)
    vec = b.coeffs
    saved = []
    try:
        for i, x in case["edits"]:
            saved.append((i, vec[i]))
            vec[i] = x
        b.coeffs = vec
        same = b.coeffs is vec
        after = _try_obs(lambda: b)
    finally:
        for i, v in reversed(saved):   # undo, should the object be shared by a mutated tree
            vec[i] = v
    case = dict(case)
    case["impl"] = dict(first=first, after=after, same_object_kept=bool(same))
    return case


# ------------------------------------------------------------------------------------------------
# generation
# ------------------------------------------------------------------------------------------------


def rand_local(rng):
    return np.kron(random_unitary(2, seed=rng).data, random_unitary(2, seed=rng).data)


def dyadic_vec(rng, n):
    assert n > 0
    while True:
        m = int(rng.integers(0, 11)) if rng.integers(0, 3) else 0
        v = [int(rng.integers(-1023, 1024)) / (1 << m) if rng.integers(0, 6) else 0.0 for _ in range(n)]
        if any(x != 0 for x in v):
            return v


def generate(rng, tier, outdir):
    w = CaseWriter(outdir, IMPORTS, CASE_TYPES)
    w.SHARD = 100
    quick = tier == "quick"
    n_near = 10 if quick else 120
    n_rand = 14 if quick else 400
    n_circ = 10 if quick else 300

    def jc(case, hist):
        """property-level oracle on every generated case; on the unchanged tree it must accept all of them"""
        v = judge(case)
        w.count(hist, "violates" if v["violates"] else "ok")
        w.contract("judge_accepts_clean_case", not v["violates"])
        return v

    # ---------------- named ----------------
    def add_named(name, theta, c, s, sub, form=None):
        case = guarded(run_named, dict(kind="named", name=name, theta=theta, sub=sub, form=form))
        aff = AFF.get(name)
        w.add("named", "chk_named",
              (Raw(f'"{name}"'), Opt((Qc(aff[0]), Qc(aff[1]))) if aff else Opt(None), qq(c), qq(s), coq_obs(case["impl"])),
              case, nontrivial=(name in PARAM), key=(name, theta))
        w.count("named.name", name)
        w.count("named.sub", sub)
        jc(case, "named.judge")

    for ni, name in enumerate(PARAM):
        p, _ = AFF[name]
        # the structured near-special grid first: should the model be unusable (a fact could not be extracted),
        # the first judged mismatches are then the informative ones
        angles = [(t, "neargrid") for t in near_grid(4 if quick else 12, shift=5 * ni)] \
            + [(t, "neargrid48") for t in near_grid48(rng, 6 if quick else 60)] \
            + [(t, "near") for t in near_special(rng, n_near)] \
            + [(t, "random") for t in random_angles(rng, n_rand)] + [(t, "special") for t in special_angles()]
        for theta, sub in angles:
            tp = theta_prime(name, theta)
            add_named(name, theta, fr(math.cos(tp)), fr(math.sin(tp)), sub)
        # other forms of the angle argument: int, numpy.float32 (theta of the case = float(argument))
        forms = [(float(k), "int") for k in ([-7, 0, 1, 3] if quick else range(-25, 26))] \
            + [(float(np.float32(t)), "float32") for t in random_angles(rng, 3 if quick else 40)]
        for theta, form in forms:
            tp = theta_prime(name, theta)
            add_named(name, theta, fr(math.cos(tp)), fr(math.sin(tp)), form, form=form)
        for _ in range(n_circ):
            c, s = circle_point(rng)
            m = int(rng.integers(-1, 2)) if abs(p) == Fraction(1, 4) else int(rng.integers(-3, 4))
            tp = math.atan2(float(s), float(c)) + 2 * PI * m
            theta = tp / float(p)
            if abs(theta) > 8 * PI:
                theta = math.atan2(float(s), float(c)) / float(p)
            add_named(name, theta, c, s, "circle")
    for name in FIXED:
        if name in AFF:
            tp = theta_prime(name, None)
            add_named(name, None, fr(math.cos(tp)), fr(math.sin(tp)), "fixed")
        else:
            add_named(name, None, Fraction(0), Fraction(0), "fixed")

    # ---------------- KAK path: documented families ----------------
    def add_kak(case, fam_kind=None, fam_sin=None):
        case = guarded(run_kak, case)
        if "crashed" in case["impl"]:
            w.add("kak", "chk_kak", ([], [], [], [], BAD_OBS), dict(case, kind="kak"), nontrivial=False,
                  key=("kak", len(w.groups.get("kak", {}).get("cases", []))))
            w.count("kak.gate", "crashed")
            jc(dict(case, kind="kak"), "kak.judge")
            return case
        info = case["oracle"]
        w.contract("harness hook: TwoQubitWeylDecomposition and _u_from_thetavec calls of the KAK path were recorded", info is not None)
        w.count("kak.gate", case["gate"])
        if info is not None:
            w.add("kak", "chk_kak", coq_kak_case(info, case["impl"]), dict(case, kind="kak"),
                  nontrivial=True, key=("kak", len(w.groups.get("kak", {}).get("cases", []))))
            w.contract("O-KAK: K1 exp(i(aXX+bYY+cZZ)) K2 reproduces the gate (1e-9)", info["recon_err"] <= 1e-9)
            w.contract("O-KAK: coordinates passed on unchanged", info["theta_passed"] == info["abc"])
            jc(dict(case, kind="kak"), "kak.judge")
        if fam_kind is not None:
            a, b, c = info["abc"] if info is not None else (float("nan"),) * 3
            if fam_kind == 0:
                ok = abs(b) <= 1e-9 and abs(c) <= 1e-9 and abs(abs(math.sin(2 * a)) - abs(fam_sin)) <= 1e-9
            else:
                ok = abs(a - b) <= 1e-9 and abs(c) <= 1e-9 and abs(abs(math.sin(2 * a)) - abs(fam_sin)) <= 1e-9
            if info is not None:
                w.contract("O-KAK: Weyl coordinates of rzx / xx_plus_yy / xx_minus_yy as documented", ok)
            fc = dict(case, kind="kakfam")
            kq = qf(case["impl"]["kappa"]) if math.isfinite(case["impl"]["kappa"]) else Raw("(fl 0 0)")
            w.add("kakfam", "chk_kak_family", (fam_kind, qf(fam_sin), kq), fc,
                  nontrivial=True, key=repr((case["gate"], case["theta"], case.get("beta"))))
            jc(fc, "kakfam.judge")
        return case

    rzx_angles = special_angles() + near_special(rng, 16 if quick else 200) + random_angles(rng, 20 if quick else 400) \
        + [7e-5, -1e-5, PI + 3e-5, 2 * PI - 5e-5]
    def maybe_twin(i):
        return dict(left=mat_json(rand_local(rng)), right=mat_json(rand_local(rng))) if i % 6 == 0 else None

    for i, theta in enumerate(rzx_angles):
        add_kak(dict(gate="rzx", theta=theta, twin=maybe_twin(i)), 0, math.sin(theta))
    betas = [0.0, PI / 2, -PI / 2, PI, 0.7, -2.3]
    xx_angles = special_angles()[::2] + near_special(rng, 8 if quick else 120) + random_angles(rng, 14 if quick else 300) \
        + [1e-5, 4 * PI - 3e-5]
    for i, theta in enumerate(xx_angles):
        for gate in ("xx_plus_yy", "xx_minus_yy"):
            beta = float(rng.choice(betas)) if rng.integers(0, 2) else float(rng.uniform(-8 * PI, 8 * PI))
            if rng.integers(0, 5) == 0:
                beta = float(rng.choice(betas)) + float(rng.choice(NEAR_DELTAS))
            add_kak(dict(gate=gate, theta=theta, beta=beta, twin=maybe_twin(i)), 1, math.sin(theta / 2))

    # ---------------- local conjugations of registered gates; open-controlled real gates ----------------
    def add_equiv(case, name, theta, key):
        """a gate locally equivalent to registered <name>(theta), sent through the KAK path"""
        case = add_kak(case)
        if name in AFF:
            tp = theta_prime(name, theta)
            c, s = fr(math.cos(tp)), fr(math.sin(tp))
        else:
            c, s = Fraction(0), Fraction(0)
        cc = dict(case, kind="conj")
        if "crashed" in case["impl"] or not math.isfinite(case["impl"]["kappa"]):
            return  # already recorded (and judged) in the kak group
        w.add("conj", "chk_conj", (Raw(f'"{name}"'), qq(c), qq(s), qf(case["impl"]["kappa"])), cc, nontrivial=True, key=key)
        w.count("conj.name", name)
        w.count("conj.form", case["gate"] + ("/identity" if case.get("identity") else ""))
        jc(cc, "conj.judge")

    def conj_theta(name):
        if name not in PARAM:
            return None
        mode = int(rng.integers(0, 4))
        return [float(rng.uniform(-8 * PI, 8 * PI)), float(rng.choice(special_angles())),
                near_special(rng, 1)[0], float(rng.uniform(-1, 1))][mode]

    conj_names = [n for n in list(PARAM) + list(FIXED) if n != "move"]
    reps = 2 if quick else 12
    eye = mat_json(np.eye(4))
    for name in conj_names:
        for r in range(reps):
            theta = conj_theta(name)
            add_equiv(dict(gate="conj", name=name, theta=theta, left=mat_json(rand_local(rng)), right=mat_json(rand_local(rng))),
                      name, theta, repr((name, theta, r)))
        if not quick or rng.integers(0, 3) == 0:   # the registered matrix itself, as a UnitaryGate
            theta = conj_theta(name)
            add_equiv(dict(gate="conj", name=name, theta=theta, left=eye, right=eye, identity=True), name, theta, repr((name, theta, "id")))
    for name in CONTROLLED:                          # cx_o0, crz_o0, ...: not registered, locally equivalent to <name>
        for r in range(1 if quick else 6):
            theta = conj_theta(name)
            add_equiv(dict(gate="open", name=name, theta=theta), name, theta, repr((name, theta, "open", r)))

    # ---------------- Haar-random unitaries with a locally equivalent twin ----------------
    for _ in range(25 if quick else 400):
        U = random_unitary(4, seed=rng).data
        if rng.integers(0, 5) == 0:  # near a product of local gates
            U = rand_local(rng) @ _exp_nonlocal(*(float(x) for x in rng.uniform(-1e-4, 1e-4, size=3))) @ rand_local(rng)
        case = dict(gate="unitary", matrix=mat_json(U), twin=dict(left=mat_json(rand_local(rng)), right=mat_json(rand_local(rng))))
        case = add_kak(case)
        if "crashed" in case["impl"]:
            continue

    # ---------------- basis invariants ----------------
    n_basis = 260 if quick else 4000
    for _ in range(n_basis):
        mode = int(rng.integers(0, 12))
        n = int(rng.integers(1, 9))
        a = int(rng.integers(1, 3)) if rng.integers(0, 12) else 0   # 0-tuples are accepted by the source (and the model)
        arities = [a] * n
        if mode == 0:
            arities = []
        elif mode == 1:
            arities = [3] * n
        elif mode == 2 and n >= 2:
            arities[int(rng.integers(1, n))] = (3 - a) if a else 1
        n_eff = len(arities)
        if n_eff == 0:
            c0 = dyadic_vec(rng, int(rng.integers(1, 4))) if rng.integers(0, 2) else []
        else:
            c0 = dyadic_vec(rng, n_eff if mode != 3 else max(1, n_eff + int(rng.choice([-1, 1, 2]))))
        ops = []
        for _k in range(int(rng.integers(0, 4))):
            good = rng.integers(0, 4) != 0
            ln = n_eff if good else max(0, n_eff + int(rng.choice([-1, 1, 3])))
            ops.append(dyadic_vec(rng, ln) if ln > 0 else [])
        containers = [str(rng.choice(["list", "list", "tuple", "ndarray", "int", "intarray"])) for _ in range(1 + len(ops))]
        case = run_basis(dict(kind="basis", arities=arities, c0=c0, ops=ops, containers=containers))
        for cn in containers:
            w.count("basis.container", cn)
        steps = case["impl"]
        crashed = any("crashed" in s for s in steps)
        os_ = []
        for s in steps:
            os_.append((bool(s["refused"]) if "crashed" not in s else False,
                        Opt(coq_obs(s["obs"])) if s["obs"] is not None else Opt(None)))
        w.add("basis", "chk_basis",
              ([int(x) for x in arities], [qf(x) for x in c0], [[qf(x) for x in c] for c in ops], os_),
              case, nontrivial=(not steps[0]["refused"] and len(ops) > 0))
        w.count("basis.first", "crashed" if crashed else ("refused" if steps[0]["refused"] else "ok"))
        w.count("basis.n_ops", len(ops))
        w.count("basis.refused_reassignments", sum(1 for s in steps[1:] if s["refused"]))
        jc(case, "basis.judge")

    # ---------------- matrices of rzx / xx_plus_yy / xx_minus_yy (theorems c15_*_is_kak are about these) ----------------
    for it in range(36 if quick else 600):
        gate = ["rzx", "xx_plus_yy", "xx_minus_yy"][it % 3]
        theta = [float(rng.uniform(-8 * PI, 8 * PI)), float(rng.choice(special_angles())), near_special(rng, 1)[0]][int(rng.integers(0, 3))]
        beta = 0.0 if gate == "rzx" else (float(rng.choice(betas)) if rng.integers(0, 2) else float(rng.uniform(-8 * PI, 8 * PI)))
        gc = guarded(run_gatemat, dict(kind="gatemat", gate=gate, theta=theta, beta=beta))
        if isinstance(gc["impl"], dict):   # crashed
            rows = []
        else:
            rows = [[(qf(z[0]), qf(z[1])) for z in row] for row in gc["impl"]]
        w.add("gatemat", "chk_gate_mat",
              (GATEMAT[gate], qf(math.cos(theta / 2)), qf(math.sin(theta / 2)), qf(math.cos(beta)), qf(math.sin(beta)), rows),
              gc, nontrivial=True)
        w.count("gatemat.gate", gate)
        jc(gc, "gatemat.judge")

    # ---------------- the same coefficient object edited in place and assigned back ----------------
    for it in range(40 if quick else 600):
        if it % 4 == 0:
            name = ["cx", "cy", "cz", "ch", "ecr"][(it // 4) % 5]
            base = dict(source="gate", name=name, arities=[2] * 6, c0=[0.5, 0.5, 0.5, -0.5, 0.5, -0.5], container="list")
        else:
            n = int(rng.integers(1, 9))
            base = dict(source="maps", name=None, arities=[int(rng.integers(1, 3))] * n, c0=dyadic_vec(rng, n),
                        container=str(rng.choice(["list", "ndarray"])))
        n = len(base["c0"])
        while True:
            edits = [[int(rng.integers(0, n)), float(int(rng.integers(-1023, 1024)) / (1 << int(rng.integers(0, 6))))]
                     for _ in range(int(rng.integers(1, 4)))]
            final = list(base["c0"])
            for i, x in edits:
                final[i] = x
            if any(v != 0 for v in final) and sum(abs(v) for v in final) != sum(abs(v) for v in base["c0"]):
                break
        sc = guarded(run_sameobj, dict(kind="sameobj", edits=edits, final=final, **base))
        if "crashed" in sc["impl"]:
            os_ = [(False, Opt(BAD_OBS))]
        else:
            os_ = [(False, Opt(coq_obs(sc["impl"]["first"]))), (False, Opt(coq_obs(sc["impl"]["after"])))]
        w.add("sameobj", "chk_basis", ([int(x) for x in base["arities"]], [qf(x) for x in base["c0"]], [[qf(x) for x in final]], os_),
              sc, nontrivial=True)
        w.count("sameobj.source", base["source"] + "/" + base["container"])
        jc(sc, "sameobj.judge")

    # ---------------- sequences: edits of one basis must not leak into fresh bases ----------------
    # (last stream; every script undoes its in-place edit, so a list shared by a mutated tree is repaired)
    all_names = ["cx", "cy", "cz", "ch", "ecr", "move"] + [n for n in list(PARAM) + list(FIXED)
                                                             if n not in ("cx", "cy", "cz", "ch", "ecr", "move")]
    n_seq = 40 if quick else 400
    for it in range(n_seq):
        a_name = all_names[it % len(all_names)] if it < 2 * len(all_names) else str(rng.choice(all_names))
        a_theta = float(rng.uniform(-8 * PI, 8 * PI)) if a_name in PARAM else None
        ncoef = {"move": 8, "swap": 58, "iswap": 58, "dcx": 58}.get(a_name, 6)
        script = dict(a_name=a_name, a_theta=a_theta, k=int(rng.integers(0, ncoef)),
                      x=float(rng.choice([0.0, -0.25, 2.0, 0.125])), newvec=dyadic_vec(rng, ncoef))
        others = [str(n) for n in rng.choice([n for n in all_names if n != a_name], size=2, replace=False)]
        fam = [n for n in ("cx", "cy", "cz", "ch", "ecr") if n != a_name] if a_name in ("cx", "cy", "cz", "ch", "ecr") else []
        targets = [a_name] + others + fam[:2]
        tlist = [dict(name=t, theta=(a_theta if t == a_name else (float(rng.uniform(-8 * PI, 8 * PI)) if t in PARAM else None)))
                 for t in targets]
        tlist.insert(1, dict(name=a_name, theta=a_theta, same_instance=True))   # the very gate object A was built from
        res = guarded(run_sequence, dict(kind="seq", script=script, targets=tlist))
        if "crashed" in res.get("impl", {}):
            cr = dict(res, kind="seq_reassigned")
            w.add("sequence.reassigned", "chk_basis", ([2], [qf(1.0)], [], [(False, Opt(BAD_OBS))]), cr, nontrivial=False)
            w.count("sequence.outcome", "crashed")
            jc(cr, "sequence.judge")
            continue
        w.count("sequence.outcome", "ok")
        w.count("sequence.inplace", res["impl"]["inplace"])
        # A after the setter: exact comparison with the model of the setter
        ra = dict(kind="seq_reassigned", script=script, impl=res["impl"]["reassigned"])
        oa = res["impl"]["reassigned"]
        rf = res["impl"]["refused"]
        ra["refused"] = rf
        w.add("sequence.reassigned", "chk_basis",
              ([2] * ncoef, [qf(x) for x in script["newvec"]], [[qf(x) for x in script["newvec"]] + [qf(1.0)]],
               [(False, Opt(coq_obs(oa))), (bool(rf["refused"]), Opt(coq_obs(rf["obs"])))]),
              ra, nontrivial=True)
        w.count("sequence.refused_after", "refused" if rf["refused"] else "accepted-or-crashed")
        jc(ra, "sequence.judge")
        # fresh bases built afterwards
        for tgt, o in zip(res["targets"], res["impl"]["fresh"]):
            name, theta = tgt["name"], tgt["theta"]
            fcase = dict(kind="seq_fresh", script=script, target=tgt, name=name, theta=theta, impl=o)
            aff = AFF.get(name)
            if name in AFF:
                tp = theta_prime(name, theta)
                c, s_ = fr(math.cos(tp)), fr(math.sin(tp))
            else:
                c, s_ = Fraction(0), Fraction(0)
            w.add("sequence.fresh", "chk_named",
                  (Raw(f'"{name}"'), Opt((Qc(aff[0]), Qc(aff[1]))) if aff else Opt(None), qq(c), qq(s_), coq_obs(o)),
                  fcase, nontrivial=True, key=("seqfresh", it, name))
            w.count("sequence.fresh.name", name)
            w.count("sequence.fresh.same_instance", bool(tgt.get("same_instance")))
            jc(fcase, "sequence.judge")

    # ---------------- histories of KAK-path requests on temporaries ----------------
    # each step is a registered gate conjugated by random local unitaries; consecutive steps belong to different
    # families, so an answer that depends on an earlier request (stale state keyed on anything but the gate's
    # matrix) shows up as a kappa that is not the closed form of the step's own gate
    for it in range(6 if quick else 60):
        nsteps = int(rng.integers(4, 9))
        steps, prev = [], None
        for _ in range(nsteps):
            name = str(rng.choice([n for n in conj_names if n != prev]))
            prev = name
            theta = conj_theta(name)
            steps.append(dict(gate="conj", name=name, theta=theta, left=mat_json(rand_local(rng)), right=mat_json(rand_local(rng))))
        sq = run_kakseq(dict(kind="kakseq", steps=steps))
        w.count("kakseq.steps", nsteps)
        for i, (st, o) in enumerate(zip(steps, sq["impl"])):
            name, theta = st["name"], st["theta"]
            if name in AFF:
                tp = theta_prime(name, theta)
                c, s_ = fr(math.cos(tp)), fr(math.sin(tp))
            else:
                c, s_ = Fraction(0), Fraction(0)
            sc = dict(sq, step=i)
            kq = qf(o["kappa"]) if obs_finite(o) else Raw("(fl 0 0)")   # kappa 0 matches no model output
            w.add("kakseq", "chk_conj", (Raw(f'"{name}"'), qq(c), qq(s_), kq), sc, nontrivial=True, key=("kakseq", it, i))
            w.count("kakseq.name", name)
            jc(sc, "kakseq.judge")

    return w.finish(
        rule="coefficients, kappa, probabilities, overhead of the implementation compared inside Coq (Q arithmetic, 1e-12 / 1e-11 on "
             "trigonometric inputs, exact on dyadic coefficient vectors, 2^-53 on quotients) with the model evaluated at the same point; "
             "KAK-path kappa compared with the documented closed forms within 1e-9")


# ------------------------------------------------------------------------------------------------
# property-level oracle (independent of the Coq model): straight from the property text
# ------------------------------------------------------------------------------------------------


def closed_form(name, theta):
    if name in ("rxx", "ryy", "rzz", "rzx"):
        return 1 + 2 * abs(math.sin(theta))
    if name in ("crx", "cry", "crz", "cp"):
        return 1 + 2 * abs(math.sin(theta / 2))
    if name in ("cx", "cy", "cz", "ch", "ecr"):
        return 3.0
    if name in ("cs", "csdg", "csx", "csxdg"):
        return 1 + math.sqrt(2)
    if name in ("swap", "iswap", "dcx"):
        return 7.0
    if name == "move":
        return 4.0
    if name in ("xx_plus_yy", "xx_minus_yy"):
        s = math.sin(theta / 2)
        return 1 + 4 * abs(s) + 2 * s * s
    raise ValueError(name)


def invariants(o, where=""):
    """probabilities = |c| / sum|c| ; kappa = sum|c| ; overhead = kappa^2 ; kappa >= 1 is checked by the caller."""
    bad = []
    if "crashed" in o:
        return [f"{where}implementation raised {o['crashed']}"]
    if not obs_finite(o):
        return [f"{where}non-finite kappa/probabilities/overhead: kappa={o['kappa']!r}"]
    c = np.array(o["coeffs"], dtype=float)
    k = float(np.sum(np.abs(c)))
    if abs(o["kappa"] - k) > 1e-12 * max(1.0, k):
        bad.append(f"{where}kappa {o['kappa']!r} != sum|c| {k!r}")
    if k > 0:
        p = np.abs(c) / k
        if len(o["probs"]) != len(c) or float(np.abs(np.array(o["probs"]) - p).max()) > 1e-12:
            bad.append(f"{where}probabilities are not |c|/sum|c|")
        if abs(float(np.sum(o["probs"])) - 1) > 1e-9:
            bad.append(f"{where}probabilities do not sum to 1")
    if abs(o["overhead"] - k * k) > 1e-9 * max(1.0, k * k):
        bad.append(f"{where}overhead {o['overhead']!r} != kappa^2 {k * k!r}")
    return bad


_PAULI2 = [np.eye(4, dtype=complex), _XX, _YY, _ZZ]


def kappa_from_weyl(a, b, c):
    """kappa of the KAK-path basis computed from the Weyl coordinates alone: N = exp(i(aXX+bYY+cZZ)) = sum_k u_k P_k (x) P_k,
    u_k = tr(P_k P_k N)/4, kappa = sum|u_k|^2 + 4 sum_{j<k} (|Re u_j conj u_k| + |Im u_j conj u_k|)   [Eq. (19) of the
    reference the package follows, absolute values summed]."""
    N = _exp_nonlocal(a, b, c)
    u = [np.trace(P @ N) / 4 for P in _PAULI2]
    k = sum(abs(z) ** 2 for z in u)
    for j in range(4):
        for l in range(j + 1, 4):
            z = u[j] * np.conj(u[l])
            k += 4 * (abs(z.real) + abs(z.imag))
    return float(k)


def judge(case):
    kind = case.get("kind")
    bad = []
    if kind in ("named", "kak", "kakfam", "conj", "seq_fresh") and ("crashed" in case["impl"] or not obs_finite(case["impl"])):
        return dict(violates=True, detail="; ".join(invariants(case["impl"])))
    if kind == "gatemat":
        return dict(violates=False, detail="tie of the model's gate matrices to Qiskit's Gate.to_matrix(); not a clause of the property")
    if kind == "sameobj":
        if "crashed" in case["impl"]:
            return dict(violates=True, detail=f"implementation raised {case['impl']['crashed']}")
        o = case["impl"]["after"]
        bad += invariants(o, where="after editing basis.coeffs in place and assigning the same object back: ")
        if not bad and [float(x) for x in o["coeffs"]] != [float(x) for x in case["final"]]:
            bad.append("coeffs after the assignment differ from the assigned vector")
    elif kind == "seq_reassigned":
        o = case["impl"]
        bad += invariants(o, where="after reassigning coeffs: ")
        if not bad and [float(x) for x in o["coeffs"]] != [float(x) for x in case["script"]["newvec"]]:
            bad.append("coeffs after assignment differ from the assigned vector")
        rf = case.get("refused")
        if rf is not None and not bad:
            if "crashed" in rf["obs"]:
                bad.append(f"after a wrong-length assignment: {rf['obs']['crashed']}")
            else:
                bad += invariants(rf["obs"], where="after a wrong-length assignment: ")
                if rf["refused"] and rf["obs"] != o:
                    bad.append("a refused (ValueError) assignment changed coeffs/kappa/probabilities/overhead")
    elif kind in ("named", "seq_fresh"):
        o = case["impl"]
        want = closed_form(case["name"], case.get("theta") or 0.0)
        if abs(o["kappa"] - want) > 1e-9:
            bad.append(f"kappa({case['name']}, theta={case.get('theta')!r}) = {o['kappa']!r}, documented closed form {want!r}"
                       + (f" (fresh basis built after editing a {case['script']['a_name']} basis: coeffs[{case['script']['k']}] = "
                          f"{case['script']['x']} in place, then coeffs = {case['script']['newvec']})" if kind == "seq_fresh" else ""))
        if o["kappa"] < 1 - 1e-12:
            bad.append(f"kappa {o['kappa']!r} < 1")
        bad += invariants(o)
    elif kind in ("kak", "kakfam", "conj"):
        o = case["impl"]
        g = case["gate"]
        want = None
        if g in ("rzx", "xx_plus_yy", "xx_minus_yy"):
            want = closed_form(g, case["theta"])
        elif g == "conj":
            want = closed_form(case["name"], case.get("theta") or 0.0)
        if want is not None and abs(o["kappa"] - want) > 1e-9:
            bad.append(f"kappa of {g}{'/' + case['name'] if g == 'conj' else ''}(theta={case.get('theta')!r}"
                       f"{', beta=' + repr(case.get('beta')) if case.get('beta') is not None else ''}) through the KAK path = "
                       f"{o['kappa']!r}, documented closed form {want!r} (Weyl coordinates returned: {(case.get('oracle') or {}).get('abc')})")
        orc = case.get("oracle")
        if orc is not None and orc.get("recon_err", 1) <= 1e-9:
            ki = kappa_from_weyl(*orc["abc"])
            if abs(o["kappa"] - ki) > 1e-9:
                bad.append(f"kappa {o['kappa']!r} of a gate with Weyl coordinates {orc['abc']} differs from the value {ki!r} "
                           f"that these coordinates determine")
        if case.get("twin") is not None and abs(case["twin"]["kappa"] - o["kappa"]) > 1e-9:
            bad.append(f"locally equivalent gates have kappa {o['kappa']!r} and {case['twin']['kappa']!r}")
        if o["kappa"] < 1 - 1e-12:
            bad.append(f"kappa {o['kappa']!r} < 1")
        bad += invariants(o)
    elif kind == "kakseq":
        i = case["step"]
        st, o = case["steps"][i], case["impl"][i]
        hist = ", ".join(f"{t['name']}({t['theta']!r})" if t["theta"] is not None else t["name"] for t in case["steps"][:i])
        where = f"step {i} of a history of KAK-path requests (earlier requests: local conjugates of {hist or 'none'}): "
        if "crashed" in o or not obs_finite(o):
            bad += invariants(o, where=where)
        else:
            want = closed_form(st["name"], st.get("theta") or 0.0)
            if abs(o["kappa"] - want) > 1e-9:
                bad.append(f"{where}kappa of a local conjugate of {st['name']}(theta={st.get('theta')!r}) through the KAK path = "
                           f"{o['kappa']!r}, documented closed form {want!r}")
            if o["kappa"] < 1 - 1e-12:
                bad.append(f"{where}kappa {o['kappa']!r} < 1")
            bad += invariants(o, where=where)
    elif kind == "basis":
        for i, s in enumerate(case["impl"]):
            if "crashed" in s:
                continue  # not a C15 matter (error classes are C18's)
            if s["obs"] is not None:
                bad += invariants(s["obs"], where=f"step {i}: ")
        # after a successful assignment the coefficients are the assigned ones
        vecs = [case["c0"]] + list(case["ops"])
        for i, s in enumerate(case["impl"]):
            if s.get("obs") is not None and not s["refused"] and "crashed" not in s:
                if [float(x) for x in s["obs"]["coeffs"]] != [float(x) for x in vecs[i]]:
                    bad.append(f"step {i}: coeffs after assignment differ from the assigned vector")
    else:
        return dict(violates=False, detail=f"unknown case kind {kind}")
    return dict(violates=bool(bad), detail="; ".join(bad) if bad else "property holds on this input")


def rerun(case):
    kind = case.get("kind")
    case = dict(case)
    if kind == "named":
        return guarded(run_named, case)
    if kind in ("kak", "kakfam", "conj"):
        k = guarded(run_kak, case)
        k["kind"] = kind
        return k
    if kind == "kakseq":
        return run_kakseq(case)
    if kind == "basis":
        return run_basis(case)
    if kind == "sameobj":
        return guarded(run_sameobj, case)
    if kind == "gatemat":
        return guarded(run_gatemat, case)
    if kind == "seq_fresh":
        r = guarded(run_sequence, dict(script=case["script"], targets=[case["target"]]))
        case["impl"] = r["impl"] if "crashed" in r["impl"] else r["impl"]["fresh"][0]
        return case
    if kind == "seq_reassigned":
        r = guarded(run_sequence, dict(script=case["script"], targets=[]))
        case["impl"] = r["impl"] if "crashed" in r["impl"] else r["impl"]["reassigned"]
        if "crashed" not in r["impl"]:
            case["refused"] = r["impl"]["refused"]
        return case
    raise ValueError(kind)


F14_INPUT = dict(kind="kakfam", gate="rzx", theta=7e-5)


def witness(name):
    if name == "F14":
        case = rerun(dict(F14_INPUT))
        v = judge(case)
        return dict(fails=bool(v["violates"]), detail=v["detail"], canonical_input=F14_INPUT)
    raise ValueError(name)

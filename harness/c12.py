"""C12 correspondence: the five reset optimisations
   cutting_experiments._consolidate_resets / _remove_resets_in_zero_state / _remove_final_resets
   utils.transpiler_passes.RemoveFinalReset / ConsolidateResets (through PassManager)
vs Model/ResetPasses.v, plus an independent density-matrix branch simulator as property oracle."""
from __future__ import annotations

import itertools

import numpy as np
from qiskit.circuit import QuantumCircuit, QuantumRegister, ClassicalRegister, Qubit, Clbit, Delay
from qiskit.circuit.library.standard_gates import get_standard_gate_name_mapping
from qiskit.transpiler import PassManager
from qiskit.transpiler.passes import DAGFixedPoint, FixedPoint, Size
from qiskit.passmanager.flow_controllers import DoWhileController

from qiskit_addon_cutting.cutting_experiments import (
    _consolidate_resets,
    _remove_resets_in_zero_state,
    _remove_final_resets,
)
from qiskit_addon_cutting.utils.transpiler_passes import RemoveFinalReset, ConsolidateResets

from common import CaseWriter, Raw, coq
from circ import CircCtx, coq_instr

IMPORTS = "From CKT Require Import Common.Base Common.Circ Model.ResetPasses Corr.C12Corr."

PASSES = ["consolidate", "zero", "final", "pipeline", "dag_rfr", "dag_rfr_fix", "dag_consolidate"]
CHECKER = {p: "chk_" + p for p in PASSES}
# passes for which the property lets the qubits with a dropped TRAILING reset differ
FINAL_TYPE = {"final", "pipeline", "dag_rfr", "dag_rfr_fix"}
LIST_PASSES = {"consolidate", "zero", "final", "pipeline"}

STD = get_standard_gate_name_mapping()

# ----------------------------------------------------------------------------------------------
# programs: list of (name, params, qubits, clbits)
# ----------------------------------------------------------------------------------------------

ALPHABET = [
    ("reset", [], [0], []),
    ("reset", [], [1], []),
    ("h", [], [0], []),
    ("x", [], [1], []),
    ("cx", [], [0, 1], []),
    ("cx", [], [1, 0], []),
    ("measure", [], [0], [0]),
    ("measure", [], [1], [0]),
    ("barrier", [], [0, 1], []),
    ("barrier", [], [0], []),
]


def make_bits(layout, regcls, bitcls, prefix):
    """layout: list of ['reg'|'loose', size]."""
    regs, bits = [], []
    for i, (kind, size) in enumerate(layout):
        if kind == "reg":
            r = regcls(size, f"{prefix}{i}")
            regs.append(r)
            bits.extend(list(r))
        else:
            bs = [bitcls() for _ in range(size)]
            regs.append(bs)
            bits.extend(bs)
    return regs, bits


def build(nq, nc, prog, qlayout=None, clayout=None):
    if qlayout is None and clayout is None:
        qc = QuantumCircuit(nq, nc)
    else:
        qc = QuantumCircuit()
        for layout, regcls, bitcls, prefix in ((qlayout or [["reg", nq]], QuantumRegister, Qubit, "q"),
                                               (clayout or [["reg", nc]], ClassicalRegister, Clbit, "c")):
            regs, _ = make_bits(layout, regcls, bitcls, prefix)
            for r in regs:
                if isinstance(r, list):
                    if r:
                        qc.add_bits(r)
                elif r.size > 0:
                    qc.add_register(r)
        assert qc.num_qubits == nq and qc.num_clbits == nc
    for name, params, qs, cs in prog:
        if name == "reset":
            qc.reset(qs[0])
        elif name == "measure":
            qc.measure(qs[0], cs[0])
        elif name == "barrier":
            qc.barrier(*qs)
        elif name == "delay":
            qc.append(Delay(int(params[0])), qs)
        else:
            g = STD[name]
            if params:
                g = type(g)(*params)
            qc.append(g, qs, cs)
    return qc


_PM = {}


def pass_managers():
    if not _PM:
        _PM["dag_rfr"] = PassManager([RemoveFinalReset()])
        _PM["dag_consolidate"] = PassManager([ConsolidateResets()])
        pm = PassManager()
        pm.append(DoWhileController([RemoveFinalReset(), DAGFixedPoint()],
                                    do_while=lambda ps: not ps["dag_fixed_point"]))
        _PM["dag_rfr_fix"] = pm
        # same loop with the stock size-based fixed-point test (no deepcopy of the DAG per iteration);
        # used for the bounded-exhaustive stream, where DAGFixedPoint would dominate the run time
        pm = PassManager()
        pm.append(DoWhileController([RemoveFinalReset(), Size(), FixedPoint("size")],
                                    do_while=lambda ps: not ps["size_fixed_point"]))
        _PM["dag_rfr_fix_size"] = pm
    return _PM


def run_passes(qc, size_fixed_point=False):
    """Apply every pass to a fresh copy; returns {pass: QuantumCircuit}."""
    out = {}
    a = qc.copy()
    _consolidate_resets(a)
    out["consolidate"] = a
    a = qc.copy()
    _remove_resets_in_zero_state(a)
    out["zero"] = a
    a = qc.copy()
    _remove_final_resets(a)
    out["final"] = a
    a = qc.copy()  # the order used by generate_cutting_experiments
    _remove_resets_in_zero_state(a)
    _remove_final_resets(a)
    _consolidate_resets(a)
    out["pipeline"] = a
    pms = pass_managers()
    for k in ("dag_rfr", "dag_rfr_fix", "dag_consolidate"):
        pm = pms["dag_rfr_fix_size"] if (k == "dag_rfr_fix" and size_fixed_point) else pms[k]
        out[k] = pm.run(qc)
    return out


# ----------------------------------------------------------------------------------------------
# Coq literals
# ----------------------------------------------------------------------------------------------

def lit_instr(d):
    op, qs, cs = d["op"], d["qs"], d["cs"]
    if op[0] == "reset" and len(qs) == 1 and not cs:
        return f"R {qs[0]}"
    if op[0] == "measure" and len(qs) == 1 and len(cs) == 1:
        return f"M {qs[0]} {cs[0]}"
    if op[0] == "barrier" and op[1] is None and not cs:
        return f"B {coq(list(qs))}"
    if op[0] == "gate" and not cs:
        return f"G {op[1]} {coq(list(qs))}"
    return coq_instr(d).s[1:-1]


def lit_circ(c):
    return Raw("[" + "; ".join(lit_instr(d) for d in c) + "]")


def canon_all(qc, outs):
    ctx = CircCtx()
    cin = ctx.canon_circuit(qc)
    couts = {}
    for k in PASSES:
        o = outs[k]
        # outputs must live on the same bits as the input
        assert o.num_qubits == qc.num_qubits and o.num_clbits == qc.num_clbits
        couts[k] = ctx.canon_circuit(o)
    return cin, couts


def tok(d):
    """Compact JSON form of a canonical instruction: 'name|params|qubits|clbits'."""
    op = d["op"]
    if op[0] == "gate":
        name, params = op[2], op[3]
    elif op[0] in ("reset", "measure", "barrier"):
        name, params = op[0], []
    else:
        raise ValueError(f"unexpected instruction {op}")
    return "|".join([name, ",".join(repr(float(p)) for p in params),
                     ",".join(str(q) for q in d["qs"]), ",".join(str(c) for c in d["cs"])])


def untok(t):
    name, ps, qs, cs = t.split("|")
    params = [float(p) for p in ps.split(",")] if ps else []
    qs = [int(q) for q in qs.split(",")] if qs else []
    cs = [int(c) for c in cs.split(",")] if cs else []
    if name in ("reset", "measure", "barrier"):
        op = [name] if name != "barrier" else ["barrier", None]
    else:
        op = ["gate", None, name, params]
    return dict(op=op, qs=qs, cs=cs)


# ----------------------------------------------------------------------------------------------
# random programs
# ----------------------------------------------------------------------------------------------

G1 = [("h", []), ("x", []), ("s", []), ("t", []), ("ry", [0.5]), ("rx", [0.25]), ("z", []), ("sdg", [])]
G2 = [("cx", []), ("cz", []), ("swap", []), ("crx", [0.5])]


def rand_instr(rng, nq, nc, wreset):
    r = rng.random()
    if r < wreset:
        return ("reset", [], [int(rng.integers(0, nq))], [])
    r = rng.random()
    if r < 0.30:
        g = G1[int(rng.integers(0, len(G1)))]
        return (g[0], list(g[1]), [int(rng.integers(0, nq))], [])
    if r < 0.55 and nq >= 2:
        g = G2[int(rng.integers(0, len(G2)))]
        qs = [int(q) for q in rng.permutation(nq)[:2]]
        return (g[0], list(g[1]), qs, [])
    if r < 0.60 and nq >= 3:
        return ("ccx", [], [int(q) for q in rng.permutation(nq)[:3]], [])
    if r < 0.80 and nc >= 1:
        return ("measure", [], [int(rng.integers(0, nq))], [int(rng.integers(0, nc))])
    if r < 0.95:
        k = int(rng.integers(1, nq + 1))
        return ("barrier", [], [int(q) for q in rng.permutation(nq)[:k]], [])
    g = G1[int(rng.integers(0, len(G1)))]
    return (g[0], list(g[1]), [int(rng.integers(0, nq))], [])


def rand_prog(rng, nq, nc):
    n = int(rng.integers(0, 17))
    wreset = float(rng.choice([0.15, 0.3, 0.5, 0.7]))
    prog = [rand_instr(rng, nq, nc, wreset) for _ in range(n)]
    # shaped resets: leading block, trailing block, around a two-qubit gate
    mode = int(rng.integers(0, 6))
    def resets(k):
        return [("reset", [], [int(rng.integers(0, nq))], []) for _ in range(k)]
    if mode == 0:
        prog = resets(int(rng.integers(1, 4))) + prog
    elif mode == 1:
        prog = prog + resets(int(rng.integers(1, 4)))
    elif mode == 2 and nq >= 2 and prog:
        i = int(rng.integers(0, len(prog) + 1))
        a, b = [int(q) for q in rng.permutation(nq)[:2]]
        side = [a, b][int(rng.integers(0, 2))]
        blk = [("reset", [], [side], [])] * int(rng.integers(1, 3)) + [("cx", [], [a, b], [])] + \
              [("reset", [], [[a, b][int(rng.integers(0, 2))]], [])] * int(rng.integers(1, 3))
        prog = prog[:i] + blk + prog[i:]
    elif mode == 3 and prog:
        # reset, separator (barrier or measure), reset on the same qubit
        q = int(rng.integers(0, nq))
        sep = ("barrier", [], [q], []) if (nc == 0 or rng.integers(0, 2)) else ("measure", [], [q], [int(rng.integers(0, nc))])
        i = int(rng.integers(0, len(prog) + 1))
        prog = prog[:i] + [("reset", [], [q], []), sep, ("reset", [], [q], [])] + prog[i:]
    return prog[:16]


def rand_layout(rng, n):
    layout, left = [], n
    while left > 0:
        s = int(rng.integers(1, left + 1))
        layout.append(["loose" if rng.integers(0, 3) == 0 else "reg", s])
        left -= s
    return layout


# ----------------------------------------------------------------------------------------------
# generate
# ----------------------------------------------------------------------------------------------

def features(w, stream, cin, couts):
    nres = sum(1 for d in cin if d["op"][0] == "reset")
    w.count(stream + ".len", len(cin))
    w.count(stream + ".resets", nres)
    for k in PASSES:
        w.count(stream + ".removed." + k, len(cin) - len(couts[k]))


def one_case(w, stream, nq, nc, prog, qlayout=None, clayout=None, combined=False):
    qc = build(nq, nc, prog, qlayout, clayout)
    outs = run_passes(qc, size_fixed_point=combined)
    cin, couts = canon_all(qc, outs)
    case = dict(nq=nq, nc=nc, qlayout=qlayout, clayout=clayout, size_fixed_point=combined,
                cin=[tok(d) for d in cin], impl={k: [tok(d) for d in couts[k]] for k in PASSES})
    v = judge(case)
    # the density-matrix oracle (independent of the Coq model) must agree with the property on every case
    w.contract("density_matrix_oracle_finds_no_violation", not v["violates"])
    if v["violates"]:
        w.notes.append(f"oracle violation: {v['detail']} on nq={nq} nc={nc} prog={prog}")
    features(w, stream, cin, couts)
    changed = any(len(couts[k]) != len(cin) for k in PASSES)
    if combined:
        w.add(stream, "chk_all", (nq, nc, lit_circ(cin), [lit_circ(couts[k]) for k in PASSES]), case, nontrivial=changed)
    else:
        for k in PASSES:
            c1 = dict(case, only=k)
            w.add(stream + "." + k, CHECKER[k], (nq, nc, lit_circ(cin), lit_circ(couts[k])), c1,
                  nontrivial=len(couts[k]) != len(cin))
    return v


def generate(rng, tier, outdir):
    w = CaseWriter(outdir, IMPORTS)
    maxlen = 4 if tier == "quick" else 5
    n_random = 250 if tier == "quick" else 4000
    n_exotic = 40 if tier == "quick" else 600

    # ---- bounded-exhaustive: every program of length <= maxlen over the 10-letter alphabet, 2 qubits / 1 clbit
    for n in range(0, maxlen + 1):
        for idxs in itertools.product(range(len(ALPHABET)), repeat=n):
            one_case(w, "exhaustive", 2, 1, [ALPHABET[i] for i in idxs], combined=True)

    # ---- random dynamic circuits: 1..4 qubits, 0..4 clbits, <= 16 instructions
    for _ in range(n_random):
        nq = int(rng.integers(1, 5))
        nc = int(rng.integers(0, 5))
        prog = rand_prog(rng, nq, nc)
        w.count("random.nq", nq)
        w.count("random.nc", nc)
        one_case(w, "random", nq, nc, prog)

    # ---- exotic stream (outside the everyday shape): split registers / loose bits, delay and id gates,
    #      empty circuits, circuits without qubits
    for it in range(n_exotic):
        if it == 0:
            one_case(w, "exotic", 0, 0, [], [], [])
            continue
        if it == 1:
            one_case(w, "exotic", 0, 2, [], [], [["reg", 2]])
            continue
        nq = int(rng.integers(1, 5))
        nc = int(rng.integers(0, 5))
        prog = rand_prog(rng, nq, nc)
        for _ in range(int(rng.integers(0, 3))):
            i = int(rng.integers(0, len(prog) + 1))
            q = int(rng.integers(0, nq))
            prog.insert(i, [("delay", [8], [q], []), ("id", [], [q], [])][int(rng.integers(0, 2))])
        prog = prog[:16]
        one_case(w, "exotic", nq, nc, prog, rand_layout(rng, nq), rand_layout(rng, nc))

    return w.finish(
        rule=f"bounded-exhaustive: every program of length <= {maxlen} over {{reset q0, reset q1, h q0, x q1, cx 0 1, cx 1 0, "
        "measure q0->c0, measure q1->c0, barrier(0,1), barrier(0)}} on 2 qubits / 1 clbit (one combined case per program: "
        "all seven checks); random dynamic circuits on 1..4 qubits, 0..4 clbits, <= 16 instructions with shaped resets (leading, "
        "trailing, repeated, around two-qubit gates on either argument, separated by barrier/measure), one case per pass; exotic "
        "stream: split registers/loose bits, delay/id gates, empty and qubit-less circuits. List passes: exact instruction list; "
        "transpiler passes (through PassManager; the fixed point of RemoveFinalReset by DoWhileController with Size+FixedPoint on the exhaustive stream and with DAGFixedPoint on the other streams): per-wire sequences. non-trivial = the pass removed at least one instruction. "
        "Every case is also judged by the independent density-matrix branch simulator (oracle contract)."
    )


# ----------------------------------------------------------------------------------------------
# property-level oracle: independent numpy density-matrix branch simulator
# ----------------------------------------------------------------------------------------------

_S2 = 1 / np.sqrt(2)


def _rot(axis, th):
    c, s = np.cos(th / 2), np.sin(th / 2)
    if axis == "x":
        return np.array([[c, -1j * s], [-1j * s, c]])
    if axis == "y":
        return np.array([[c, -s], [s, c]], dtype=complex)
    return np.array([[np.exp(-1j * th / 2), 0], [0, np.exp(1j * th / 2)]])


def _controlled(u, nctrl=1):
    """Qiskit convention: controls are the first (least significant) arguments."""
    k = nctrl + 1
    m = np.eye(2 ** k, dtype=complex)
    allc = 2 ** nctrl - 1
    for a in range(2):
        for b in range(2):
            m[allc + (b << nctrl), allc + (a << nctrl)] = u[b, a]
    return m


_X = np.array([[0, 1], [1, 0]], dtype=complex)
_Z = np.array([[1, 0], [0, -1]], dtype=complex)


def gate_matrix(name, params):
    if name in ("id", "delay"):
        return np.eye(2, dtype=complex)
    if name == "h":
        return np.array([[_S2, _S2], [_S2, -_S2]], dtype=complex)
    if name == "x":
        return _X
    if name == "y":
        return np.array([[0, -1j], [1j, 0]])
    if name == "z":
        return _Z
    if name == "s":
        return np.diag([1, 1j])
    if name == "sdg":
        return np.diag([1, -1j])
    if name == "t":
        return np.diag([1, np.exp(1j * np.pi / 4)])
    if name == "tdg":
        return np.diag([1, np.exp(-1j * np.pi / 4)])
    if name in ("rx", "ry", "rz"):
        return _rot(name[1], float(params[0]))
    if name == "cx":
        return _controlled(_X)
    if name == "cz":
        return _controlled(_Z)
    if name == "crx":
        return _controlled(_rot("x", float(params[0])))
    if name == "ccx":
        return _controlled(_X, 2)
    if name == "swap":
        m = np.zeros((4, 4), dtype=complex)
        for a in range(4):
            m[((a & 1) << 1) | (a >> 1), a] = 1
        return m
    raise ValueError(f"oracle does not know gate {name}")


def embed(u, qs, nq):
    """Full 2^nq operator of u acting on qubits qs (qs[0] = least significant bit of u's index)."""
    dim = 2 ** nq
    o = np.zeros((dim, dim), dtype=complex)
    k = len(qs)
    for i in range(dim):
        a = 0
        for p, q in enumerate(qs):
            a |= ((i >> q) & 1) << p
        base = i
        for q in qs:
            base &= ~(1 << q)
        for b in range(2 ** k):
            if u[b, a] == 0:
                continue
            j = base
            for p, q in enumerate(qs):
                j |= ((b >> p) & 1) << q
            o[j, i] += u[b, a]
    return o


def simulate(nq, nc, cprog):
    """cprog: canonical instructions.  Returns {clbit tuple: unnormalised density matrix}."""
    dim = 2 ** nq
    rho0 = np.zeros((dim, dim), dtype=complex)
    rho0[0, 0] = 1
    br = {tuple([0] * nc): rho0}
    p0 = np.diag([1, 0]).astype(complex)
    p1 = np.diag([0, 1]).astype(complex)
    for d in cprog:
        op, qs, cs = d["op"], d["qs"], d["cs"]
        kind = op[0]
        if kind == "barrier":
            continue
        if kind == "gate":
            o = embed(gate_matrix(op[2], op[3]), qs, nq)
            br = {k: o @ r @ o.conj().T for k, r in br.items()}
        elif kind == "reset":
            a = embed(p0, qs[:1], nq)
            b = embed(_X @ p1, qs[:1], nq)
            br = {k: a @ r @ a.conj().T + b @ r @ b.conj().T for k, r in br.items()}
        elif kind == "measure":
            a = embed(p0, qs[:1], nq)
            b = embed(p1, qs[:1], nq)
            new = {}
            for k, r in br.items():
                for bit, proj in ((0, a), (1, b)):
                    k2 = list(k)
                    k2[cs[0]] = bit
                    k2 = tuple(k2)
                    x = proj @ r @ proj
                    new[k2] = new[k2] + x if k2 in new else x
            br = new
        else:
            raise ValueError(f"oracle does not know instruction {op}")
    return br


def ptrace(rho, drop, nq):
    n = nq
    for q in sorted(drop, reverse=True):
        lo, hi = 2 ** q, 2 ** (n - 1 - q)
        rho = np.trace(rho.reshape(hi, 2, lo, hi, 2, lo), axis1=1, axis2=4).reshape(hi * lo, hi * lo)
        n -= 1
    return rho


def wire_seq(c, q):
    return [d for d in c if q in d["qs"]]


def clbit_seq(c, k):
    return [d for d in c if k in d["cs"]]


def trailing_resets(seq):
    n = 0
    for d in reversed(seq):
        if d["op"][0] == "reset":
            n += 1
        else:
            break
    return n


def only_resets_deleted(a, b):
    """b is a with some reset instructions deleted, all else kept in order."""
    j = 0
    for d in a:
        if j < len(b) and b[j] == d:
            j += 1
        elif d["op"][0] != "reset":
            return False
    return j == len(b)


_SIM = {}


def _sim_cached(nq, nc, c):
    key = (nq, nc, repr(c))
    if key not in _SIM:
        if len(_SIM) > 20000:
            _SIM.clear()
        _SIM[key] = simulate(nq, nc, c)
    return _SIM[key]


def judge_pass(name, nq, nc, cin, cout):
    # (1) only resets are removed, everything else untouched and in order
    if name in LIST_PASSES:
        if not only_resets_deleted(cin, cout):
            return f"{name}: output is not the input with only resets deleted: in={cin} out={cout}"
    else:
        for q in range(nq):
            if not only_resets_deleted(wire_seq(cin, q), wire_seq(cout, q)):
                return f"{name}: qubit {q}'s instruction sequence is not preserved up to deleted resets"
        for k in range(nc):
            if clbit_seq(cin, k) != clbit_seq(cout, k):
                return f"{name}: clbit {k}'s instruction sequence changed"
        nr_in = sorted(repr(d) for d in cin if d["op"][0] != "reset")
        nr_out = sorted(repr(d) for d in cout if d["op"][0] != "reset")
        if nr_in != nr_out or len(cout) > len(cin):
            return f"{name}: non-reset instructions changed"
    # (2) joint law of the clbits together with the conditional state of the qubits not excused
    dropped = set()
    if name in FINAL_TYPE:
        for q in range(nq):
            if trailing_resets(wire_seq(cout, q)) < trailing_resets(wire_seq(cin, q)):
                dropped.add(q)
    if cout == cin:
        return None  # nothing removed: trivially the same law
    a = _sim_cached(nq, nc, cin)
    b = _sim_cached(nq, nc, cout)
    dim = 2 ** (nq - len(dropped))
    zero = np.zeros((dim, dim), dtype=complex)
    for k in set(a) | set(b):
        ra = ptrace(a[k], dropped, nq) if k in a else zero
        rb = ptrace(b[k], dropped, nq) if k in b else zero
        if not np.allclose(ra, rb, atol=1e-9, rtol=0):
            return (f"{name}: clbits={k}: joint (probability x conditional state) of qubits "
                    f"{[q for q in range(nq) if q not in dropped]} differs by {np.abs(ra - rb).max():.3g}; excused qubits {sorted(dropped)}")
    return None


def judge(case):
    nq, nc = case["nq"], case["nc"]
    cin = [untok(t) for t in case["cin"]]
    names = [case["only"]] if case.get("only") else PASSES
    problems = []
    for name in names:
        p = judge_pass(name, nq, nc, cin, [untok(t) for t in case["impl"][name]])
        if p:
            problems.append(p)
    return dict(violates=bool(problems), detail="; ".join(problems) if problems else "property holds on this input for " + ",".join(names))


def rerun(case):
    prog = []
    for t in case["cin"]:
        d = untok(t)
        name = d["op"][0] if d["op"][0] != "gate" else d["op"][2]
        params = d["op"][3] if d["op"][0] == "gate" else []
        prog.append((name, params, d["qs"], d["cs"]))
    qc = build(case["nq"], case["nc"], prog, case.get("qlayout"), case.get("clayout"))
    outs = run_passes(qc, size_fixed_point=bool(case.get("size_fixed_point")))
    cin, couts = canon_all(qc, outs)
    assert [tok(d) for d in cin] == case["cin"], "rebuilt circuit differs from the stored input"
    case["impl"] = {k: [tok(d) for d in couts[k]] for k in PASSES}
    return case

"""C12 correspondence: the five reset optimisations
   cutting_experiments._consolidate_resets / _remove_resets_in_zero_state / _remove_final_resets
   utils.transpiler_passes.RemoveFinalReset / ConsolidateResets (through PassManager)
vs Model/ResetPasses.v, plus an independent density-matrix branch simulator as property oracle."""
from __future__ import annotations

import itertools

import numpy as np
from qiskit.circuit import QuantumCircuit, QuantumRegister, ClassicalRegister, Qubit, Clbit, Delay
from qiskit.circuit.library.standard_gates import get_standard_gate_name_mapping
from qiskit.transpiler import PassManager
from qiskit.transpiler.passes import DAGFixedPoint, FixedPoint, Size
from qiskit.passmanager.flow_controllers import DoWhileController

from qiskit_addon_cutting.cutting_experiments import (
    _consolidate_resets,
    _remove_resets_in_zero_state,
    _remove_final_resets,
)
from qiskit_addon_cutting.utils.transpiler_passes import RemoveFinalReset, ConsolidateResets

import qiskit_addon_cutting.cutting_experiments as _ce
from qiskit_addon_cutting import cut_wires, expand_observables, partition_problem, generate_cutting_experiments
from qiskit_addon_cutting.instructions import CutWire, Move
from qiskit_addon_cutting.utils.observable_grouping import ObservableCollection
from qiskit.circuit import Instruction, Reset
from qiskit.quantum_info import PauliList

from common import CaseWriter, Raw, coq, call_canon
from circ import CircCtx, coq_instr, circuit_registers

IMPORTS = ("From Coq Require Import QArith.\nClose Scope Q_scope.\n"
           "From CKT Require Import Common.Base Common.Circ Model.ResetPasses Corr.C12Corr.")

PASSES = ["consolidate", "zero", "final", "pipeline", "dag_rfr", "dag_rfr_fix", "dag_consolidate"]
# further call forms of the three list passes (random / exotic streams only):
#   *_copy  = f(circuit, inplace=False) (the returned circuit);  *_twice = f applied twice to the same object
EXTRA = ["consolidate_copy", "zero_copy", "final_copy", "consolidate_twice", "zero_twice", "final_twice"]
CHECKER = {p: "chk_" + p for p in PASSES}
CHECKER.update({b + "_copy": "chk_" + b for b in ("consolidate", "zero", "final")})
CHECKER.update({b + "_twice": "chk_twice_" + b for b in ("consolidate", "zero", "final")})


def base_pass(name):
    return name.rsplit("_", 1)[0] if name.endswith(("_copy", "_twice")) else name


# passes for which the property lets the qubits with a dropped TRAILING reset differ
FINAL_TYPE = {"final", "pipeline", "dag_rfr", "dag_rfr_fix"}
LIST_PASSES = {"consolidate", "zero", "final", "pipeline"}

STD = get_standard_gate_name_mapping()

# ----------------------------------------------------------------------------------------------
# programs: list of (name, params, qubits, clbits)
# ----------------------------------------------------------------------------------------------

ALPHABET = [
    ("reset", [], [0], []),
    ("reset", [], [1], []),
    ("h", [], [0], []),
    ("x", [], [1], []),
    ("cx", [], [0, 1], []),
    ("cx", [], [1, 0], []),
    ("measure", [], [0], [0]),
    ("measure", [], [1], [0]),
    ("barrier", [], [0, 1], []),
    ("barrier", [], [0], []),
]


# the symmetric completion of the alphabet (second bounded-exhaustive stream, one length shorter)
ALPHABET13 = ALPHABET + [
    ("h", [], [1], []),
    ("x", [], [0], []),
    ("barrier", [], [1], []),
]


def make_bits(layout, regcls, bitcls, prefix):
    """layout: list of ['reg'|'loose', size]."""
    regs, bits = [], []
    for i, (kind, size) in enumerate(layout):
        if kind == "reg":
            r = regcls(size, f"{prefix}{i}")
            regs.append(r)
            bits.extend(list(r))
        else:
            bs = [bitcls() for _ in range(size)]
            regs.append(bs)
            bits.extend(bs)
    return regs, bits


def build(nq, nc, prog, qlayout=None, clayout=None):
    if qlayout is None and clayout is None:
        qc = QuantumCircuit(nq, nc)
    else:
        qc = QuantumCircuit()
        for layout, regcls, bitcls, prefix in ((qlayout or [["reg", nq]], QuantumRegister, Qubit, "q"),
                                               (clayout or [["reg", nc]], ClassicalRegister, Clbit, "c")):
            regs, _ = make_bits(layout, regcls, bitcls, prefix)
            for r in regs:
                if isinstance(r, list):
                    if r:
                        qc.add_bits(r)
                elif r.size > 0:
                    qc.add_register(r)
        assert qc.num_qubits == nq and qc.num_clbits == nc
    for name, params, qs, cs in prog:
        if name == "reset":
            if params:  # a labelled Reset (the label is not part of the canonical form)
                qc.append(Reset(label=f"r{int(params[0])}"), qs)
            else:
                qc.reset(qs[0])
        elif name == "measure":
            qc.measure(qs[0], cs[0])
        elif name == "barrier":
            qc.barrier(*qs)
        elif name == "delay":
            qc.append(Delay(int(params[0])), qs)
        else:
            g = STD[name]
            if params:
                g = type(g)(*params)
            qc.append(g, qs, cs)
    return qc


_PM = {}


def pass_managers():
    if not _PM:
        _PM["dag_rfr"] = PassManager([RemoveFinalReset()])
        _PM["dag_consolidate"] = PassManager([ConsolidateResets()])
        pm = PassManager()
        pm.append(DoWhileController([RemoveFinalReset(), DAGFixedPoint()],
                                    do_while=lambda ps: not ps["dag_fixed_point"]))
        _PM["dag_rfr_fix"] = pm
        # same loop with the stock size-based fixed-point test (no deepcopy of the DAG per iteration);
        # used for the bounded-exhaustive stream, where DAGFixedPoint would dominate the run time
        pm = PassManager()
        pm.append(DoWhileController([RemoveFinalReset(), Size(), FixedPoint("size")],
                                    do_while=lambda ps: not ps["size_fixed_point"]))
        _PM["dag_rfr_fix_size"] = pm
    return _PM


class Crash:
    """An in-domain call of a pass that raised: recorded as the pass's output (a one-element
    canonical list holding a crash marker), never allowed to take the generator down."""
    def __init__(self, e):
        self.msg = f"{type(e).__name__}: {str(e)[:120]}".replace("|", "/")


def guard(f):
    try:
        return f()
    except Exception as e:  # noqa: BLE001
        return Crash(e)


def crash_canon(c):
    return [dict(op=["crash", c.msg], qs=[], cs=[])]


def is_crash(canon):
    return any(d["op"][0] == "crash" for d in canon)


LISTFN = {"consolidate": _consolidate_resets, "zero": _remove_resets_in_zero_state, "final": _remove_final_resets}


def run_extra(qc, ctx_canon):
    """inplace=False and call-twice forms; returns ({name: circuit | Crash}, input_untouched: bool)."""
    out = {}
    untouched = True
    before = ctx_canon(qc)
    for b, f in LISTFN.items():
        a = qc.copy()
        r = guard(lambda: f(a, inplace=False))
        if not isinstance(r, Crash):
            untouched = untouched and (r is not a) and ctx_canon(a) == before
        out[b + "_copy"] = r

        def twice(f=f):
            a2 = qc.copy()
            f(a2)
            f(a2)
            return a2
        out[b + "_twice"] = guard(twice)
    return out, untouched


def run_passes(qc, size_fixed_point=False):
    """Apply every pass to a fresh copy; returns {pass: QuantumCircuit | Crash}."""
    out = {}

    def inplace(*fs):
        def run():
            a = qc.copy()
            for f in fs:
                f(a)
            return a
        return guard(run)

    out["consolidate"] = inplace(_consolidate_resets)
    out["zero"] = inplace(_remove_resets_in_zero_state)
    out["final"] = inplace(_remove_final_resets)
    # the order used by generate_cutting_experiments
    out["pipeline"] = inplace(_remove_resets_in_zero_state, _remove_final_resets, _consolidate_resets)
    pms = pass_managers()
    for k in ("dag_rfr", "dag_rfr_fix", "dag_consolidate"):
        pm = pms["dag_rfr_fix_size"] if (k == "dag_rfr_fix" and size_fixed_point) else pms[k]
        out[k] = guard(lambda pm=pm: pm.run(qc))
    return out


# ----------------------------------------------------------------------------------------------
# Coq literals
# ----------------------------------------------------------------------------------------------

def lit_instr(d):
    op, qs, cs = d["op"], d["qs"], d["cs"]
    if op[0] == "crash":
        return "CRASHED"
    if op[0] == "reset" and len(qs) == 1 and not cs:
        return f"R {qs[0]}"
    if op[0] == "measure" and len(qs) == 1 and len(cs) == 1:
        return f"M {qs[0]} {cs[0]}"
    if op[0] == "barrier" and op[1] is None and not cs:
        return f"B {coq(list(qs))}"
    if op[0] == "gate" and not cs:
        return f"G {op[1]} {coq(list(qs))}"
    return coq_instr(d).s[1:-1]


def lit_circ(c):
    return Raw("[" + "; ".join(lit_instr(d) for d in c) + "]")


def canon_all(qc, outs, names=None):
    """Canonical input and outputs; also the list of passes whose output no longer lives on the same
    number of bits (recorded in the case and flagged by judge, instead of crashing the generator) and
    whether every output kept the register structure of the input."""
    ctx = CircCtx()
    cin = ctx.canon_circuit(qc)
    couts, bits_changed = {}, []
    regs_in = circuit_registers(qc)
    regs_ok = True
    for k in (names or PASSES):
        o = outs[k]
        if isinstance(o, Crash):
            couts[k] = crash_canon(o)
            continue
        if o.num_qubits != qc.num_qubits or o.num_clbits != qc.num_clbits:
            bits_changed.append(k)
        elif circuit_registers(o) != regs_in:
            regs_ok = False
        couts[k] = ctx.canon_circuit(o)
    return cin, couts, bits_changed, regs_ok


def tok(d):
    """Compact JSON form of a canonical instruction: 'name|params|qubits|clbits'."""
    op = d["op"]
    if op[0] == "crash":
        return "CRASH|" + op[1] + "||"
    if op[0] == "gate":
        name, params = op[2], op[3]
    elif op[0] in ("reset", "measure", "barrier"):
        name, params = op[0], []
    else:
        raise ValueError(f"unexpected instruction {op}")
    return "|".join([name, ",".join(repr(float(p)) for p in params),
                     ",".join(str(q) for q in d["qs"]), ",".join(str(c) for c in d["cs"])])


def untok(t):
    name, ps, qs, cs = t.split("|")
    if name == "CRASH":
        return dict(op=["crash", ps], qs=[], cs=[])
    params = [float(p) for p in ps.split(",")] if ps else []
    qs = [int(q) for q in qs.split(",")] if qs else []
    cs = [int(c) for c in cs.split(",")] if cs else []
    if name in ("reset", "measure", "barrier"):
        op = [name] if name != "barrier" else ["barrier", None]
    else:
        op = ["gate", None, name, params]
    return dict(op=op, qs=qs, cs=cs)


# ----------------------------------------------------------------------------------------------
# random programs
# ----------------------------------------------------------------------------------------------

G1 = [("h", []), ("x", []), ("s", []), ("t", []), ("ry", [0.5]), ("rx", [0.25]), ("z", []), ("sdg", []),
      ("rz", [0.75]), ("y", []), ("tdg", []), ("sx", []), ("p", [0.5])]
G2 = [("cx", []), ("cz", []), ("swap", []), ("crx", [0.5]), ("rzz", [0.5])]


def rand_instr(rng, nq, nc, wreset):
    r = rng.random()
    if r < wreset:
        return ("reset", [], [int(rng.integers(0, nq))], [])
    r = rng.random()
    if r < 0.30:
        g = G1[int(rng.integers(0, len(G1)))]
        return (g[0], list(g[1]), [int(rng.integers(0, nq))], [])
    if r < 0.55 and nq >= 2:
        g = G2[int(rng.integers(0, len(G2)))]
        qs = [int(q) for q in rng.permutation(nq)[:2]]
        return (g[0], list(g[1]), qs, [])
    if r < 0.62 and nq >= 3:
        return ("ccx", [], [int(q) for q in rng.permutation(nq)[:3]], [])
    if r < 0.80 and nc >= 1:
        return ("measure", [], [int(rng.integers(0, nq))], [int(rng.integers(0, nc))])
    if r < 0.95:
        k = int(rng.integers(1, nq + 1))
        return ("barrier", [], [int(q) for q in rng.permutation(nq)[:k]], [])
    g = G1[int(rng.integers(0, len(G1)))]
    return (g[0], list(g[1]), [int(rng.integers(0, nq))], [])


MAXLEN = 16


def rand_prog(rng, nq, nc):
    """<= 16 instructions; the shaped block is built FIRST and the random filling is cut to fit."""
    wreset = float(rng.choice([0.15, 0.3, 0.5, 0.7]))

    def R(q):
        return ("reset", [], [q], [])

    def resets(k):
        return [R(int(rng.integers(0, nq))) for _ in range(k)]

    mode = int(rng.integers(0, 7))
    head, blk, tail = [], [], []
    if mode == 0:
        head = resets(int(rng.integers(1, 4)))
    elif mode == 1:
        tail = resets(int(rng.integers(1, 4)))
    elif mode == 2 and nq >= 2:
        a, b = [int(q) for q in rng.permutation(nq)[:2]]
        side = [a, b][int(rng.integers(0, 2))]
        blk = [R(side)] * int(rng.integers(1, 3)) + [("cx", [], [a, b], [])] + \
              [R([a, b][int(rng.integers(0, 2))])] * int(rng.integers(1, 3))
    elif mode == 3:
        # reset, separator (barrier or measure), reset on the same qubit
        q = int(rng.integers(0, nq))
        sep = ("barrier", [], [q], []) if (nc == 0 or rng.integers(0, 2)) else ("measure", [], [q], [int(rng.integers(0, nc))])
        blk = [R(q), sep, R(q)]
    elif mode == 4 and nq >= 3:
        # a reset on EVERY argument position of a three-qubit gate whose other arguments are excited:
        # x a; x b; R q; ccx(..q..); R q   (the second reset is significant when q is the target)
        a, b, q = [int(v) for v in rng.permutation(nq)[:3]]
        pos = int(rng.integers(0, 3))
        args = [a, b]
        args.insert(pos, q)
        blk = [("x", [], [a], []), ("x", [], [b], []), R(q), ("ccx", [], args, []), R(q)]
        if nc >= 1:
            blk.append(("measure", [], [q], [int(rng.integers(0, nc))]))
    elif mode == 5:
        head = resets(int(rng.integers(1, 3)))
        tail = resets(int(rng.integers(1, 3)))
    room = MAXLEN - len(head) - len(blk) - len(tail)
    n = int(rng.integers(0, room + 1))
    fill = [rand_instr(rng, nq, nc, wreset) for _ in range(n)]
    i = int(rng.integers(0, len(fill) + 1))
    prog = head + fill[:i] + blk + fill[i:] + tail
    assert len(prog) <= MAXLEN
    return prog


def rand_layout(rng, n):
    layout, left = [], n
    while left > 0:
        s = int(rng.integers(1, left + 1))
        layout.append(["loose" if rng.integers(0, 3) == 0 else "reg", s])
        left -= s
    return layout


# ----------------------------------------------------------------------------------------------
# generate
# ----------------------------------------------------------------------------------------------

QSIM_CODE = {"x": 0, "y": 1, "z": 2, "h": 3, "s": 4, "sdg": 5, "sx": 6, "sxdg": 7, "cx": 8, "cz": 9, "swap": 10, "ccx": 11}


def sim_case(w, stream, nq, nc, cin):
    """The Coq concrete semantics (Model/ResetSim.v over Common/QSim.v) against the numpy simulator:
    only circuits whose gates are all in the QSim gate set and whose outcome probabilities are dyadic."""
    from fractions import Fraction
    tab = {}
    for d in cin:
        if d["op"][0] == "gate":
            if d["op"][2] not in QSIM_CODE or d["op"][3]:
                return
            tab[d["op"][1]] = QSIM_CODE[d["op"][2]]
    law = []
    for k, rho in sorted(simulate(nq, nc, cin).items()):
        p = float(np.real(np.trace(rho)))
        fr = Fraction(round(p * 4096), 4096)
        if abs(float(fr) - p) > 1e-9:
            return
        if fr > 0:
            law.append(([bool(b) for b in k], fr))
    case = dict(kind="sim", nq=nq, nc=nc, cin=[tok(d) for d in cin], law=[[k, str(p)] for k, p in law])
    w.add(stream, "chk_sim", (nq, nc, sorted(tab.items()), lit_circ(cin), law), case,
          nontrivial=any(d["op"][0] == "reset" for d in cin))


def features(w, stream, cin, couts):
    nres = sum(1 for d in cin if d["op"][0] == "reset")
    w.count(stream + ".len", len(cin))
    w.count(stream + ".resets", nres)
    for k in PASSES:
        w.count(stream + ".removed." + k, "crashed" if is_crash(couts[k]) else len(cin) - len(couts[k]))


def judged(w, case):
    """Every generated case goes through the property oracle: on the unchanged tree it must accept all of them."""
    try:
        v = judge(case)
    except Exception as e:  # noqa: BLE001
        v = dict(violates=True, detail=f"judge raised {type(e).__name__}: {e}")
    w.contract("judge_accepts_clean_case", not v["violates"])
    if v["violates"] and len(w.notes) < 20:
        w.notes.append(f"oracle violation: {v['detail'][:400]} on {case.get('cin')}")
    return v


def one_case(w, stream, nq, nc, prog, qlayout=None, clayout=None, combined=False):
    qc = build(nq, nc, prog, qlayout, clayout)
    outs = run_passes(qc, size_fixed_point=combined)
    names = list(PASSES)
    if not combined:
        extra, untouched = run_extra(qc, lambda c: CircCtx().canon_circuit(c))
        outs.update(extra)
        names += EXTRA
        w.contract("inplace_false_leaves_input_untouched", untouched)
    cin, couts, bits_changed, regs_ok = canon_all(qc, outs, names)
    w.contract("registers_preserved", regs_ok)
    case = dict(nq=nq, nc=nc, qlayout=qlayout, clayout=clayout, size_fixed_point=combined,
                cin=[tok(d) for d in cin], impl={k: [tok(d) for d in couts[k]] for k in names},
                bits_changed=bits_changed)
    v = judged(w, case)
    features(w, stream, cin, couts)
    w._c12_n = getattr(w, "_c12_n", 0) + 1
    if (not combined) or w._c12_n % 11 == 0:
        sim_case(w, "sim." + stream, nq, nc, cin)
    changed = any(len(couts[k]) != len(cin) for k in PASSES)
    if combined:
        w.add(stream, "chk_all", (nq, nc, lit_circ(cin), [lit_circ(couts[k]) for k in PASSES]), case, nontrivial=changed)
    else:
        for k in names:
            c1 = dict(case, only=k)
            w.add(stream + "." + k, CHECKER[k], (nq, nc, lit_circ(cin), lit_circ(couts[k])), c1,
                  nontrivial=len(couts[k]) != len(cin))
    return v


# ----------------------------------------------------------------------------------------------
# end-to-end stream: the passes as generate_cutting_experiments applies them
# ----------------------------------------------------------------------------------------------

E2E_FNS = ("_remove_resets_in_zero_state", "_remove_final_resets", "_consolidate_resets")
E2E_KEY = {"_remove_resets_in_zero_state": "zero", "_remove_final_resets": "final", "_consolidate_resets": "consolidate"}


def e2e_problem(rng, it):
    """A small wire-cut problem: circuit with CutWire markers + observables (some with identity factors,
    so that a partition gets an identity sub-observable and the placeholder measurement)."""
    if it == 0:  # the reviewer's probe
        qc = QuantumCircuit(2)
        qc.h(0); qc.cx(0, 1); qc.append(CutWire(), [0]); qc.rx(0.5, 0); qc.ry(0.25, 1)
        return qc, PauliList(["IZ"]), "probe"
    if it % 4 == 1:
        # explicit Move between two partitions, observable NOT identity on the Move source: the source's
        # reset is followed by a real measurement, so it is not final
        qc = QuantumCircuit(3)
        qc.h(0); qc.cx(0, 1)
        if rng.integers(0, 2):
            qc.ry(float(rng.choice([0.25, 0.5])), 1)
        qc.append(Move(), [1, 2])
        qc.ry(0.5, 2)
        if rng.integers(0, 2):
            qc.h(2)
        obs = [["IZI", "ZZZ", "IXI"][int(rng.integers(0, 3))], ["ZII", "IZZ", "ZYI"][int(rng.integers(0, 3))]]
        return qc, PauliList(sorted(set(obs))), "move"
    n = int(rng.integers(2, 4))
    qc = QuantumCircuit(n)
    ncuts = 1 if rng.integers(0, 4) else 2
    cutpos = sorted(int(v) for v in rng.integers(1, 5, size=ncuts))
    k = 0
    for step in range(6):
        while k < len(cutpos) and cutpos[k] == step:
            qc.append(CutWire(), [int(rng.integers(0, n))])
            k += 1
        r = rng.integers(0, 4)
        if r == 0:
            a, b = [int(v) for v in rng.permutation(n)[:2]]
            qc.cx(a, b)
        elif r == 1:
            qc.h(int(rng.integers(0, n)))
        elif r == 2:
            qc.ry(float(rng.choice([0.25, 0.5, 1.25])), int(rng.integers(0, n)))
        else:
            a, b = [int(v) for v in rng.permutation(n)[:2]]
            qc.cz(a, b)
    labels = []
    for _ in range(int(rng.integers(1, 3))):
        lets = ["I"] * n
        for q in rng.permutation(n)[: int(rng.integers(1, n + 1))]:
            lets[int(q)] = "XYZ"[int(rng.integers(0, 3))]
        if rng.integers(0, 3) == 0:  # single-qubit observable: the other partitions get identity
            lets = ["I"] * n
            lets[int(rng.integers(0, n))] = "Z"
        labels.append("".join(lets))
    return qc, PauliList(sorted(set(labels))), f"n{n}c{ncuts}"


def e2e_generate(subcircuits, subobservables, record=None, disable=False):
    """generate_cutting_experiments with the three reset functions wrapped (record every call) or
    replaced by the identity (the unoptimised subexperiments)."""
    orig = {n: getattr(_ce, n) for n in E2E_FNS}
    try:
        for n in E2E_FNS:
            if disable:
                setattr(_ce, n, lambda c, *a, **k: c)
            else:
                def wrapped(c, *a, _n=n, **k):
                    ctx = CircCtx()
                    before = ctx.canon_circuit(c)
                    try:
                        r = orig[_n](c, *a, **k)
                    except Exception as e:  # noqa: BLE001
                        record.append((_n, c, before, crash_canon(Crash(e))))
                        raise
                    record.append((_n, c, before, ctx.canon_circuit(c)))
                    return r
                setattr(_ce, n, wrapped)
        return generate_cutting_experiments(subcircuits, subobservables, num_samples=np.inf)
    finally:
        for n in E2E_FNS:
            setattr(_ce, n, orig[n])


def e2e_stream(w, rng, n_problems, max_sub):
    for it in range(n_problems):
        qc, obs, tag = e2e_problem(rng, it)
        if tag == "move":
            r = call_canon(lambda: partition_problem(qc, partition_labels="AAB", observables=obs))
        else:
            r = call_canon(cut_wires, qc)
            if r[0] != "ok":
                w.count("e2e.problem", "cut_wires-" + r[0])
                continue
            qc1 = r[1]
            r = call_canon(lambda: partition_problem(qc1, observables=expand_observables(obs, qc, qc1)))
        if r[0] != "ok":
            w.count("e2e.problem", "setup-" + r[0])
            continue
        pp = r[1]
        record = []
        ro = call_canon(e2e_generate, pp.subcircuits, pp.subobservables, record)
        ru = call_canon(e2e_generate, pp.subcircuits, pp.subobservables, None, True)
        if ru[0] != "ok":
            w.count("e2e.problem", "generate-unoptimised-" + ru[0])
            continue
        w.count("e2e.problem", tag if ro[0] == "ok" else tag + "-generate-" + ro[0])
        # (a) every recorded call against the model of that pass (a call that raised is recorded with a crash marker)
        by_obj = {}
        for n, c, before, after in record:
            by_obj.setdefault(id(c), []).append(n)
            k = E2E_KEY[n]
            case = dict(nq=c.num_qubits, nc=c.num_clbits, cin=[tok(d) for d in before], impl={k: [tok(d) for d in after]},
                        only=k, bits_changed=[], origin="generate_cutting_experiments")
            judged(w, case)
            w.add("e2e." + k, CHECKER[k], (c.num_qubits, c.num_clbits, lit_circ(before), lit_circ(after)), case,
                  nontrivial=len(before) != len(after))
        if ro[0] != "ok":
            # the unoptimised generation succeeds, the real one raised: a reset pass (recorded above) or something
            # else went wrong; without subexperiments there is nothing to compare in (b)
            w.contract("e2e_generation_succeeds_when_unoptimised_does", any(is_crash(r[3]) for r in record))
            continue
        subs, subs0 = ro[1][0], ru[1][0]
        # (b) every subexperiment as a whole against the unoptimised one
        for label in subs:
            groups = ObservableCollection(pp.subobservables[label]).groups
            assert len(subs[label]) == len(subs0[label])
            for i, (opt, un) in enumerate(zip(subs[label], subs0[label])):
                if i >= max_sub:
                    break
                cog = groups[i % len(groups)]
                placeholder = not cog.pauli_indices
                seq = by_obj.get(id(opt), [])
                want = (["_remove_final_resets"] if placeholder else []) + list(E2E_FNS)
                w.contract("e2e_every_subexperiment_gets_the_pipeline", seq == want)
                ctx = CircCtx()
                cun, copt = ctx.canon_circuit(un), ctx.canon_circuit(opt)
                unmasked = []
                for reg in opt.cregs:
                    if reg.name == "qpd_measurements" or (reg.name == "observable_measurements" and not placeholder):
                        unmasked += [opt.find_bit(b).index for b in reg]
                w.contract("registers_preserved", circuit_registers(un) == circuit_registers(opt))
                case = dict(kind="e2e", nq=un.num_qubits, nc=un.num_clbits, placeholder=placeholder, unmasked=sorted(unmasked),
                            cin=[tok(d) for d in cun], impl={"e2e": [tok(d) for d in copt]}, bits_changed=[])
                judged(w, case)
                w.count("e2e.placeholder", placeholder)
                w.count("e2e.removed", len(cun) - len(copt))
                w.add("e2e.subexperiment", "chk_e2e", (un.num_qubits, placeholder, lit_circ(cun), lit_circ(copt)), case,
                      nontrivial=len(cun) != len(copt))


# ----------------------------------------------------------------------------------------------
# observations outside the property's quantifier (recorded, never checked)
# ----------------------------------------------------------------------------------------------

def observations(w):
    """Conditional resets and non-Reset instructions named 'reset' are outside 'gates, mid-circuit
    measurements, resets and barriers'; the model does not cover them.  What the implementation does
    on the known probes is recorded in the histograms only."""
    def names(c):
        return [(i.operation.name, getattr(i.operation, "condition", None) is not None) for i in c.data]
    try:
        # list pass: conditional reset followed by an unconditional one
        qc = QuantumCircuit(2, 1)
        qc.h(0); qc.measure(0, 0); qc.h(1)
        qc.reset(1).c_if(qc.clbits[0], 1)
        qc.reset(1); qc.measure(1, 0)
        a = qc.copy(); _consolidate_resets(a)
        kept = [c for n, c in names(a) if n == "reset"]
        w.count("observation.c_if.list_consolidate_keeps_only_conditional_reset", kept == [True])
        # DAG pass: unconditional reset followed by a conditional one
        qc = QuantumCircuit(2, 1)
        qc.h(0); qc.measure(0, 0); qc.h(1)
        qc.reset(1)
        qc.reset(1).c_if(qc.clbits[0], 1)
        qc.h(1); qc.measure(1, 0)
        b = pass_managers()["dag_consolidate"].run(qc)
        kept = [c for n, c in names(b) if n == "reset"]
        w.count("observation.c_if.dag_consolidate_keeps_only_conditional_reset", kept == [True])
    except Exception as e:  # noqa: BLE001
        w.count("observation.c_if.probe_failed", type(e).__name__)
    try:
        # an instruction that is merely NAMED "reset": list passes go by name, DAG passes by class
        qc = QuantumCircuit(1)
        qc.h(0); qc.append(Instruction("reset", 1, 0, []), [0])
        a = qc.copy(); _remove_final_resets(a)
        b = pass_managers()["dag_rfr"].run(qc)
        w.count("observation.named_reset.list_final_removes_it", len(a.data) == 1)
        w.count("observation.named_reset.dag_final_removes_it", len(b.data) == 1)
    except Exception as e:  # noqa: BLE001
        w.count("observation.named_reset.probe_failed", type(e).__name__)


def generate(rng, tier, outdir):
    w = CaseWriter(outdir, IMPORTS)
    quick = tier == "quick"
    maxlen = 4 if quick else 5
    maxlen13 = 3 if quick else 4
    n_random = 250 if quick else 2500
    n_exotic = 40 if quick else 600
    n_e2e = 8 if quick else 60

    # ---- bounded-exhaustive: every program of length <= maxlen over the 10-letter alphabet, 2 qubits / 1 clbit
    for n in range(0, maxlen + 1):
        for idxs in itertools.product(range(len(ALPHABET)), repeat=n):
            one_case(w, "exhaustive", 2, 1, [ALPHABET[i] for i in idxs], combined=True)
    # ---- the symmetric 13-letter alphabet (adds h q1, x q0, barrier(1)), one length shorter; only programs
    #      that use a new letter (the others are in the first stream)
    new = set(range(len(ALPHABET), len(ALPHABET13)))
    for n in range(1, maxlen13 + 1):
        for idxs in itertools.product(range(len(ALPHABET13)), repeat=n):
            if new.intersection(idxs):
                one_case(w, "exhaustive13", 2, 1, [ALPHABET13[i] for i in idxs], combined=True)

    # ---- random dynamic circuits: 1..4 qubits, 0..4 clbits, <= 16 instructions
    for _ in range(n_random):
        nq = int(rng.integers(1, 5))
        nc = int(rng.integers(0, 5))
        prog = rand_prog(rng, nq, nc)
        w.count("random.nq", nq)
        w.count("random.nc", nc)
        one_case(w, "random", nq, nc, prog)

    # ---- exotic stream (outside the everyday shape): split registers / loose bits, delay and id gates,
    #      labelled resets, empty circuits, circuits without qubits
    for it in range(n_exotic):
        if it == 0:
            one_case(w, "exotic", 0, 0, [], [], [])
            continue
        if it == 1:
            one_case(w, "exotic", 0, 2, [], [], [["reg", 2]])
            continue
        nq = int(rng.integers(1, 5))
        nc = int(rng.integers(0, 5))
        prog = rand_prog(rng, nq, nc)[:14]
        for _ in range(int(rng.integers(0, 3))):
            i = int(rng.integers(0, len(prog) + 1))
            q = int(rng.integers(0, nq))
            prog.insert(i, [("delay", [8], [q], []), ("id", [], [q], [])][int(rng.integers(0, 2))])
        if rng.integers(0, 2):
            prog = [(p[0], [int(rng.integers(0, 3))], p[2], p[3]) if p[0] == "reset" and rng.integers(0, 2) else p for p in prog]
        one_case(w, "exotic", nq, nc, prog, rand_layout(rng, nq), rand_layout(rng, nc))

    # ---- end to end: the call sites inside generate_cutting_experiments on small wire-cut problems
    e2e_stream(w, rng, n_e2e, 16 if quick else 64)

    observations(w)

    return w.finish(
        rule=f"bounded-exhaustive: every program of length <= {maxlen} over {{reset q0, reset q1, h q0, x q1, cx 0 1, cx 1 0, "
        "measure q0->c0, measure q1->c0, barrier(0,1), barrier(0)}} on 2 qubits / 1 clbit (one combined case per program: "
        f"all seven checks), plus every program of length <= {maxlen13} over that alphabet extended by {{h q1, x q0, barrier(1)}} that uses "
        "a new letter; random dynamic circuits on 1..4 qubits, 0..4 clbits, <= 16 instructions with shaped resets (leading, "
        "trailing, both, repeated, around two-qubit gates on either argument, on every argument position of a ccx with excited "
        "partners, separated by barrier/measure), one case per pass and call form (in place, inplace=False, applied twice); exotic "
        "stream: split registers/loose bits, delay/id gates, labelled resets, empty and qubit-less circuits; end-to-end stream: "
        "generate_cutting_experiments on small wire-cut problems (incl. identity sub-observables), every recorded call of the three "
        "functions against its model and every subexperiment against the unoptimised one (passes disabled from the harness). "
        "List passes: exact instruction list; "
        "transpiler passes (through PassManager; the fixed point of RemoveFinalReset by DoWhileController with Size+FixedPoint on the "
        "exhaustive streams and with DAGFixedPoint on the other streams): per-wire sequences. non-trivial = the pass removed at least "
        "one instruction. Every case is also judged by the independent density-matrix branch simulator (contract judge_accepts_clean_case)."
    )


# ----------------------------------------------------------------------------------------------
# property-level oracle: independent numpy density-matrix branch simulator
# ----------------------------------------------------------------------------------------------

_S2 = 1 / np.sqrt(2)


class OutsideDomain(Exception):
    pass


def _rot(axis, th):
    c, s = np.cos(th / 2), np.sin(th / 2)
    if axis == "x":
        return np.array([[c, -1j * s], [-1j * s, c]])
    if axis == "y":
        return np.array([[c, -s], [s, c]], dtype=complex)
    return np.array([[np.exp(-1j * th / 2), 0], [0, np.exp(1j * th / 2)]])


def _controlled(u, nctrl=1):
    """Qiskit convention: controls are the first (least significant) arguments."""
    k = nctrl + 1
    m = np.eye(2 ** k, dtype=complex)
    allc = 2 ** nctrl - 1
    for a in range(2):
        for b in range(2):
            m[allc + (b << nctrl), allc + (a << nctrl)] = u[b, a]
    return m


_X = np.array([[0, 1], [1, 0]], dtype=complex)
_Z = np.array([[1, 0], [0, -1]], dtype=complex)


def gate_matrix(name, params):
    if name in ("id", "delay"):
        return np.eye(2, dtype=complex)
    if name == "h":
        return np.array([[_S2, _S2], [_S2, -_S2]], dtype=complex)
    if name == "x":
        return _X
    if name == "y":
        return np.array([[0, -1j], [1j, 0]])
    if name == "z":
        return _Z
    if name == "s":
        return np.diag([1, 1j])
    if name == "sdg":
        return np.diag([1, -1j])
    if name == "t":
        return np.diag([1, np.exp(1j * np.pi / 4)])
    if name == "tdg":
        return np.diag([1, np.exp(-1j * np.pi / 4)])
    if name in ("rx", "ry", "rz"):
        return _rot(name[1], float(params[0]))
    if name == "cx":
        return _controlled(_X)
    if name == "cz":
        return _controlled(_Z)
    if name == "crx":
        return _controlled(_rot("x", float(params[0])))
    if name == "ccx":
        return _controlled(_X, 2)
    if name == "swap":
        m = np.zeros((4, 4), dtype=complex)
        for a in range(4):
            m[((a & 1) << 1) | (a >> 1), a] = 1
        return m
    if name == "sx":
        return 0.5 * np.array([[1 + 1j, 1 - 1j], [1 - 1j, 1 + 1j]])
    if name == "sxdg":
        return 0.5 * np.array([[1 - 1j, 1 + 1j], [1 + 1j, 1 - 1j]])
    if name == "p":
        return np.diag([1, np.exp(1j * float(params[0]))])
    if name == "rzz":
        t = float(params[0]) / 2
        return np.diag([np.exp(-1j * t), np.exp(1j * t), np.exp(1j * t), np.exp(-1j * t)])
    # any other standard gate: its documented matrix (not part of the independent table)
    if name in STD:
        g = STD[name]
        try:
            return np.asarray((type(g)(*params) if params else g).to_matrix(), dtype=complex)
        except Exception as e:  # noqa: BLE001
            raise OutsideDomain(f"gate {name} has no matrix ({type(e).__name__})")
    raise OutsideDomain(f"instruction {name} is not a gate, measurement, reset or barrier")


def embed(u, qs, nq):
    """Full 2^nq operator of u acting on qubits qs (qs[0] = least significant bit of u's index)."""
    dim = 2 ** nq
    o = np.zeros((dim, dim), dtype=complex)
    k = len(qs)
    for i in range(dim):
        a = 0
        for p, q in enumerate(qs):
            a |= ((i >> q) & 1) << p
        base = i
        for q in qs:
            base &= ~(1 << q)
        for b in range(2 ** k):
            if u[b, a] == 0:
                continue
            j = base
            for p, q in enumerate(qs):
                j |= ((b >> p) & 1) << q
            o[j, i] += u[b, a]
    return o


def simulate(nq, nc, cprog):
    """cprog: canonical instructions.  Returns {clbit tuple: unnormalised density matrix}."""
    dim = 2 ** nq
    rho0 = np.zeros((dim, dim), dtype=complex)
    rho0[0, 0] = 1
    br = {tuple([0] * nc): rho0}
    p0 = np.diag([1, 0]).astype(complex)
    p1 = np.diag([0, 1]).astype(complex)
    for d in cprog:
        op, qs, cs = d["op"], d["qs"], d["cs"]
        kind = op[0]
        if kind == "barrier":
            continue
        if kind == "gate":
            o = embed(gate_matrix(op[2], op[3]), qs, nq)
            br = {k: o @ r @ o.conj().T for k, r in br.items()}
        elif kind == "reset":
            a = embed(p0, qs[:1], nq)
            b = embed(_X @ p1, qs[:1], nq)
            br = {k: a @ r @ a.conj().T + b @ r @ b.conj().T for k, r in br.items()}
        elif kind == "measure":
            a = embed(p0, qs[:1], nq)
            b = embed(p1, qs[:1], nq)
            new = {}
            for k, r in br.items():
                for bit, proj in ((0, a), (1, b)):
                    k2 = list(k)
                    k2[cs[0]] = bit
                    k2 = tuple(k2)
                    x = proj @ r @ proj
                    new[k2] = new[k2] + x if k2 in new else x
            br = new
        else:
            raise OutsideDomain(f"instruction {op}")
    return br


def ptrace(rho, drop, nq):
    n = nq
    for q in sorted(drop, reverse=True):
        lo, hi = 2 ** q, 2 ** (n - 1 - q)
        rho = np.trace(rho.reshape(hi, 2, lo, hi, 2, lo), axis1=1, axis2=4).reshape(hi * lo, hi * lo)
        n -= 1
    return rho


def wire_seq(c, q):
    return [d for d in c if q in d["qs"]]


def clbit_seq(c, k):
    return [d for d in c if k in d["cs"]]


def trailing_resets(seq):
    n = 0
    for d in reversed(seq):
        if d["op"][0] == "reset":
            n += 1
        else:
            break
    return n


def only_resets_deleted(a, b):
    """b is a with some reset instructions deleted, all else kept in order."""
    j = 0
    for d in a:
        if j < len(b) and b[j] == d:
            j += 1
        elif d["op"][0] != "reset":
            return False
    return j == len(b)


_SIM = {}


def _sim_cached(nq, nc, c):
    key = (nq, nc, repr(c))
    if key not in _SIM:
        if len(_SIM) > 20000:
            _SIM.clear()
        _SIM[key] = simulate(nq, nc, c)
    return _SIM[key]


def judge_pass(name, nq, nc, cin, cout):
    pname, name = name, base_pass(name)
    # (1) only resets are removed, everything else untouched and in order
    if name in LIST_PASSES:
        if not only_resets_deleted(cin, cout):
            return f"{pname}: output is not the input with only resets deleted: in={cin} out={cout}"
    else:
        for q in range(nq):
            if not only_resets_deleted(wire_seq(cin, q), wire_seq(cout, q)):
                return f"{pname}: qubit {q}'s instruction sequence is not preserved up to deleted resets"
        for k in range(nc):
            if clbit_seq(cin, k) != clbit_seq(cout, k):
                return f"{pname}: clbit {k}'s instruction sequence changed"
        nr_in = sorted(repr(d) for d in cin if d["op"][0] != "reset")
        nr_out = sorted(repr(d) for d in cout if d["op"][0] != "reset")
        if nr_in != nr_out or len(cout) > len(cin):
            return f"{pname}: non-reset instructions changed"
    # (2) joint law of the clbits together with the conditional state of the qubits not excused
    dropped = set()
    if name in FINAL_TYPE:
        for q in range(nq):
            if trailing_resets(wire_seq(cout, q)) < trailing_resets(wire_seq(cin, q)):
                dropped.add(q)
    if cout == cin:
        return None  # nothing removed: trivially the same law
    a = _sim_cached(nq, nc, cin)
    b = _sim_cached(nq, nc, cout)
    dim = 2 ** (nq - len(dropped))
    zero = np.zeros((dim, dim), dtype=complex)
    for k in set(a) | set(b):
        ra = ptrace(a[k], dropped, nq) if k in a else zero
        rb = ptrace(b[k], dropped, nq) if k in b else zero
        if not np.allclose(ra, rb, atol=1e-9, rtol=0):
            return (f"{pname}: clbits={k}: joint (probability x conditional state) of qubits "
                    f"{[q for q in range(nq) if q not in dropped]} differs by {np.abs(ra - rb).max():.3g}; excused qubits {sorted(dropped)}")
    return None


def same_per_wire(nq, nc, a, b):
    return (len(a) == len(b) and all(wire_seq(a, q) == wire_seq(b, q) for q in range(nq))
            and all(clbit_seq(a, k) == clbit_seq(b, k) for k in range(nc)))


def clbit_law(nq, nc, c, keep):
    """Marginal law of the classical bits in [keep] (all qubits traced out)."""
    law = {}
    for k, rho in _sim_cached(nq, nc, c).items():
        kk = tuple(k[i] for i in keep)
        law[kk] = law.get(kk, 0.0) + float(np.real(np.trace(rho)))
    return law


def judge_e2e(case):
    nq, nc = case["nq"], case["nc"]
    cin = [untok(t) for t in case["cin"]]
    if any(t.startswith("CRASH|") for t in case["impl"]["e2e"]):
        return "e2e: the call raised: " + case["impl"]["e2e"][0].split("|")[1]
    cout = [untok(t) for t in case["impl"]["e2e"]]
    if not only_resets_deleted(cin, cout):
        return "e2e: the subexperiment is not the unoptimised one with only resets deleted"
    keep = case["unmasked"]
    a, b = clbit_law(nq, nc, cin, keep), clbit_law(nq, nc, cout, keep)
    for k in set(a) | set(b):
        if abs(a.get(k, 0.0) - b.get(k, 0.0)) > 1e-9:
            return (f"e2e: law of the unmasked classical bits {keep} differs at outcome {k}: "
                    f"{a.get(k, 0.0):.6g} (unoptimised) vs {b.get(k, 0.0):.6g} (generated subexperiment)")
    return None


def judge(case):
    """Domain = the property's quantifier: gates, measurements, resets, barriers on in-range bits.
    Anything the oracle cannot interpret is outside that domain and is not flagged."""
    try:
        if case.get("kind") == "sim":
            return dict(violates=False, detail="cross-check of the Coq concrete semantics against the numpy simulator; "
                                               "no implementation output involved")
        if case.get("kind") == "e2e":
            p = judge_e2e(case)
            return dict(violates=bool(p), detail=p or "property holds on this subexperiment")
        nq, nc = case["nq"], case["nc"]
        cin = [untok(t) for t in case["cin"]]
        names = [case["only"]] if case.get("only") else [k for k in PASSES + EXTRA if k in case["impl"]]
        problems = []
        for name in names:
            if any(t.startswith("CRASH|") for t in case["impl"][name]):
                problems.append(f"{name}: the call raised on an input inside the property's domain: "
                                + case["impl"][name][0].split("|")[1])
                continue
            if name in case.get("bits_changed", []):
                problems.append(f"{name}: the output circuit no longer has {nq} qubits / {nc} clbits")
                continue
            p = judge_pass(name, nq, nc, cin, [untok(t) for t in case["impl"][name]])
            if p:
                problems.append(p)
        # "the two equivalent transpiler passes": same sequence on every wire as the function-level pass
        for dag, lst in (("dag_rfr_fix", "final"), ("dag_consolidate", "consolidate")):
            if (dag in names and lst in case["impl"] and dag not in case.get("bits_changed", [])
                    and not any(t.startswith("CRASH|") for t in case["impl"][dag] + case["impl"][lst])):
                if not same_per_wire(nq, nc, [untok(t) for t in case["impl"][dag]], [untok(t) for t in case["impl"][lst]]):
                    problems.append(f"{dag}: not equivalent to the list pass '{lst}' (some wire sees a different instruction sequence)")
    except OutsideDomain as e:
        return dict(violates=False, detail=f"outside the property's quantifier: {e}")
    return dict(violates=bool(problems), detail="; ".join(problems) if problems else "property holds on this input for " + ",".join(names))


def rerun(case):
    prog = []
    for t in case["cin"]:
        d = untok(t)
        name = d["op"][0] if d["op"][0] != "gate" else d["op"][2]
        params = d["op"][3] if d["op"][0] == "gate" else []
        prog.append((name, params, d["qs"], d["cs"]))
    if case.get("kind") == "sim":
        return case
    if case.get("kind") == "e2e" or case.get("origin"):
        # subexperiment-shaped input: re-run the recorded pass / the call sites of generate_cutting_experiments on it
        qc = build(case["nq"], case["nc"], prog)
        def canon_or_crash(r):
            return [tok(d) for d in (crash_canon(r) if isinstance(r, Crash) else CircCtx().canon_circuit(r))]

        if case.get("kind") == "e2e":
            def sites():
                a = qc.copy()
                if case["placeholder"]:
                    last = a.data.pop()
                    _ce._remove_final_resets(a)
                    a.data.append(last)
                for n in E2E_FNS:
                    getattr(_ce, n)(a)
                return a
            case["impl"] = {"e2e": canon_or_crash(guard(sites))}
        else:
            k = case["only"]

            def one():
                a = qc.copy()
                LISTFN[k](a)
                return a
            case["impl"] = {k: canon_or_crash(guard(one))}
        return case
    qc = build(case["nq"], case["nc"], prog, case.get("qlayout"), case.get("clayout"))
    outs = run_passes(qc, size_fixed_point=bool(case.get("size_fixed_point")))
    names = [k for k in PASSES + EXTRA if k in case["impl"]]
    if any(k in EXTRA for k in names):
        outs.update(run_extra(qc, lambda c: CircCtx().canon_circuit(c))[0])
    cin, couts, bits_changed, _ = canon_all(qc, outs, names)
    assert [tok(d) for d in cin] == case["cin"], "rebuilt circuit differs from the stored input"
    case["impl"] = {k: [tok(d) for d in couts[k]] for k in names}
    case["bits_changed"] = bits_changed
    return case

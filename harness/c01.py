"""C01 end-to-end correspondence: cut -> generate (num_samples = inf) -> ExactSampler -> reconstruct
vs. (a) the structural hypotheses of c01_roundtrip evaluated by Corr/C01Corr.v on what the implementation produced and
(b) an independent state-vector simulation of the UNCUT circuit (this file's own simulator over gate matrices).

The pipeline under test is only ever called through the package's public functions; the oracle never calls the package.
"""
from __future__ import annotations

import json
import math
import time
from fractions import Fraction

import numpy as np
from qiskit.circuit import QuantumCircuit, QuantumRegister
from qiskit.circuit.library import (
    UnitaryGate, SwapGate, iSwapGate, DCXGate, CXGate, CYGate, CZGate, CHGate, ECRGate, CSGate, CSdgGate, CSXGate,
    RXXGate, RYYGate, RZZGate, RZXGate, CRXGate, CRYGate, CRZGate, CPhaseGate, XXPlusYYGate, XXMinusYYGate,
    RXGate, RYGate, RZGate, HGate, SGate, SdgGate, TGate, TdgGate, UGate, SXGate, XGate, YGate, ZGate, PhaseGate,
)
from qiskit.quantum_info import Operator, PauliList

from qiskit_addon_cutting import (
    partition_problem, cut_gates, partition_circuit_qubits, generate_cutting_experiments,
    reconstruct_expectation_values,
)
from qiskit_addon_cutting.qpd import TwoQubitQPDGate, SingleQubitQPDGate, generate_qpd_weights, QPDBasis
from qiskit_addon_cutting.qpd import weights as _weights_mod
from qiskit_addon_cutting.utils.observable_grouping import ObservableCollection
from qiskit_addon_cutting.utils.simulation import ExactSampler

from common import CaseWriter, Res, Raw, Qc, Nc, Opt, Interner, tagged, untag

IMPORTS = ("From Coq Require Import QArith.\n"
           "From CKT Require Import Common.Base Model.Observables Corr.C01Corr.\n"
           "Close Scope Q_scope.")
TOL_VALUE = 1e-10     # per unit of kappa, see value_tolerance


def value_tolerance(impl):
    """Tolerance of the value comparison: 1e-10 * kappa (kappa = product of the sum|c| of the cut bases, >= 1), capped at
    1e-7.  Measured error of the pipeline on correct code is <= 6e-14; joint maps legitimately dropped below the 1e-14
    cut-off can cost at most (#maps) * 1e-14 * kappa <= 2.6e-11 * kappa; a bug that drops maps of probability up to 1e-8
    costs 1e-10 .. 1e-7 and must be seen."""
    kap = 1.0
    try:
        for cs in (impl.get("st") or {}).get("C", []):
            kap *= max(1.0, sum(abs(float(Fraction(c))) for c in cs))
    except Exception:  # noqa: BLE001
        kap = 1.0
    return min(1e-7, TOL_VALUE * kap)
OWN_EVAL_MAX_CIRCUITS = 80      # the harness's own evaluation of the returned subexperiments is done for small cases
LETTERS = "IXYZ"

# ------------------------------------------------------------------------------------------------
# gate tables (name -> constructor, #params).  "unitary1"/"unitary2" carry their matrix in the spec.
# ------------------------------------------------------------------------------------------------
G1 = {
    "rx": (RXGate, 1), "ry": (RYGate, 1), "rz": (RZGate, 1), "p": (PhaseGate, 1), "u": (UGate, 3),
    "h": (HGate, 0), "s": (SGate, 0), "sdg": (SdgGate, 0), "t": (TGate, 0), "tdg": (TdgGate, 0),
    "sx": (SXGate, 0), "x": (XGate, 0), "y": (YGate, 0), "z": (ZGate, 0),
}
G2_FIXED = {
    "swap": SwapGate, "iswap": iSwapGate, "dcx": DCXGate, "cx": CXGate, "cy": CYGate, "cz": CZGate, "ch": CHGate,
    "ecr": ECRGate, "cs": CSGate, "csdg": CSdgGate, "csx": CSXGate, "csxdg": lambda: CSXGate().inverse(),
}
G2_PARAM = {
    "rxx": (RXXGate, 1), "ryy": (RYYGate, 1), "rzz": (RZZGate, 1), "crx": (CRXGate, 1), "cry": (CRYGate, 1),
    "crz": (CRZGate, 1), "cp": (CPhaseGate, 1), "rzx": (RZXGate, 1), "xx_plus_yy": (XXPlusYYGate, 2),
    "xx_minus_yy": (XXMinusYYGate, 2),
}
LIGHT2 = ["cx", "cy", "cz", "ch", "ecr", "cs", "csdg", "csx", "csxdg", "rxx", "ryy", "rzz", "crx", "cry", "crz", "cp", "rzx"]
HEAVY2 = ["swap", "iswap", "dcx", "xx_plus_yy", "xx_minus_yy", "unitary2"]
CX_FAMILY = ["cx", "cy", "cz", "ch", "ecr"]
SPECIAL_ANGLES = [0.0, math.pi, -math.pi, math.pi / 2, -math.pi / 2, math.pi / 3, math.pi / 4, 2 * math.pi,
                  2 * math.atan(0.5), 2 * math.atan(1 / 3.0), 4 * math.atan(0.5), 1e-3, math.pi - 1e-3, 1e-8]
NEAR_SPECIAL = [c + sgn * eps for c in (0.0, math.pi / 4, math.pi / 2, math.pi) for eps in (1e-4, 1e-5, 1e-6)
                for sgn in (1, -1)]
KAK_PARAM = ["rzx", "xx_plus_yy", "xx_minus_yy"]
LABEL_POOL = [0, 1, 2, "A", "B", "foo", (1, 2), ("a", 0), 3.5, True, frozenset([1]), -7, "", (None, 1)]


def mat_to_json(m):
    return [[[float(z.real), float(z.imag)] for z in row] for row in np.asarray(m)]


def mat_from_json(j):
    return np.array([[complex(a, b) for a, b in row] for row in j])


def make_gate(g):
    """Qiskit gate object of a gate spec dict(name, params, qubits[, matrix])."""
    nm = g["name"]
    if nm in ("unitary1", "unitary2"):
        return UnitaryGate(mat_from_json(g["matrix"]))
    if nm in G1:
        return G1[nm][0](*g["params"])
    if nm in G2_FIXED:
        return G2_FIXED[nm]()
    return G2_PARAM[nm][0](*g["params"])


def rand_angle(rng):
    r = rng.integers(0, 10)
    if r < 4:
        return float(SPECIAL_ANGLES[int(rng.integers(0, len(SPECIAL_ANGLES)))])
    return float(rng.uniform(-2 * math.pi, 2 * math.pi))


def rand_unitary(rng, d):
    z = rng.normal(size=(d, d)) + 1j * rng.normal(size=(d, d))
    q, r = np.linalg.qr(z)
    return q * (np.diag(r) / np.abs(np.diag(r)))


def rand_gate1(rng, q):
    r = rng.integers(0, 14)
    if r == 0:
        return dict(name="unitary1", params=[], qubits=[q], matrix=mat_to_json(rand_unitary(rng, 2)))
    if r == 1:
        return dict(name="reset", params=[], qubits=[q])
    nm = list(G1)[int(rng.integers(0, len(G1)))]
    return dict(name=nm, params=[rand_angle(rng) for _ in range(G1[nm][1])], qubits=[q])


def rand_gate2(rng, a, b, pool):
    nm = pool[int(rng.integers(0, len(pool)))]
    if nm == "unitary2":
        return dict(name=nm, params=[], qubits=[a, b], matrix=mat_to_json(rand_unitary(rng, 4)))
    if nm in G2_FIXED:
        return dict(name=nm, params=[], qubits=[a, b])
    params = [rand_angle(rng) for _ in range(G2_PARAM[nm][1])]
    if nm in KAK_PARAM and rng.integers(0, 3) == 0:     # just off a special point of the Weyl chamber
        params[0] = float(NEAR_SPECIAL[int(rng.integers(0, len(NEAR_SPECIAL)))])
    return dict(name=nm, params=params, qubits=[a, b])


# ------------------------------------------------------------------------------------------------
# problem generator
# ------------------------------------------------------------------------------------------------
def gen_spec(rng, tier, it):
    nmax = 5 if tier == "quick" else 6
    n = int(rng.choice(range(1, nmax + 1), p=([0.06, 0.2, 0.28, 0.26, 0.2] if nmax == 5 else [0.05, 0.15, 0.22, 0.22, 0.2, 0.16])))
    form = ["dict_explicit", "dict_auto", "single_cut_gates", "single_pcq", "dict_marked"][int(rng.choice(5, p=[0.42, 0.17, 0.18, 0.13, 0.1]))]
    by_ids = form in ("single_cut_gates", "dict_marked")    # cuts are chosen by gate index through cut_gates
    # idle qubits
    idle = []
    if n >= 2 and rng.integers(0, 10) < 4:
        k = int(rng.integers(1, min(2, n - 1) + 1))
        idle = sorted(int(q) for q in rng.permutation(n)[:k])
    active = [q for q in range(n) if q not in idle]
    ng = int(rng.integers(1, min(4, len(active)) + 1))
    if ng == 1 and len(active) >= 2 and rng.integers(0, 3):
        ng = int(rng.integers(2, min(4, len(active)) + 1))
    pool = [LABEL_POOL[i] for i in rng.permutation(len(LABEL_POOL))[:ng]]
    group_of = {}
    for i, q in enumerate(rng.permutation(active)):
        group_of[int(q)] = i if i < ng else int(rng.integers(0, ng))
    # idle qubits: label None (discarded) or, sometimes, a real label (kept as an empty partition / part of one)
    idle_kept = [q for q in idle if rng.integers(0, 4) == 0 and form not in ("dict_auto", "dict_marked")]
    labels = []
    for q in range(n):
        if q in idle:
            labels.append(pool[int(rng.integers(0, ng))] if q in idle_kept else None)
        else:
            labels.append(pool[group_of[q]])
    if form == "single_pcq":
        labels = [l if l is not None else pool[0] for l in labels]  # partition_circuit_qubits has no None rule

    # budget on the number of sampled joint maps
    cap = 300 if tier == "quick" else 2600
    ncuts_wanted = int(rng.choice([0, 1, 2, 3], p=[0.05, 0.45, 0.38, 0.12]))
    gates = []
    length = int(rng.integers(1, 9))
    cross_pairs = [(a, b) for a in active for b in active if a != b and labels[a] != labels[b]]
    same_pairs = [(a, b) for a in active for b in active if a != b and labels[a] == labels[b]]
    any_pairs = [(a, b) for a in active for b in active if a != b]
    budget = 1
    ncut = 0

    def cost(nm):
        return 6 if nm in LIGHT2 else 58

    for _ in range(length):
        r = rng.integers(0, 10)
        if r < 4 and active:
            gates.append(rand_gate1(rng, int(active[int(rng.integers(0, len(active)))])))
        elif r < 7 and (same_pairs if not by_ids else any_pairs):
            prs = same_pairs if not by_ids else any_pairs
            a, b = prs[int(rng.integers(0, len(prs)))]
            gates.append(rand_gate2(rng, a, b, LIGHT2 + HEAVY2))
        elif r < 8 and active:
            # barrier: partial or full (over non-discarded qubits)
            allowed = [q for q in range(n) if labels[q] is not None or form.startswith("single")]
            if allowed:
                k = int(rng.integers(1, len(allowed) + 1))
                qs = [int(q) for q in rng.permutation(allowed)[:k]]
                if not set(qs) & set(idle):  # keep idle qubits truly untouched
                    gates.append(dict(name="barrier", params=[], qubits=qs))
        elif active:
            gates.append(rand_gate1(rng, int(active[int(rng.integers(0, len(active)))])))
    # insert the cut gates at random positions
    cut_positions = []
    pairs_for_cut = cross_pairs if not by_ids else any_pairs
    for _ in range(ncuts_wanted):
        if not pairs_for_cut:
            break
        heavy_ok = budget * 58 <= cap
        pool2 = ((CX_FAMILY if ncut else LIGHT2) if (ncuts_wanted == 3 and tier == "quick") else
                 (LIGHT2 + (HEAVY2 * 2 if heavy_ok and rng.integers(0, 2) == 0 else [])))
        a, b = pairs_for_cut[int(rng.integers(0, len(pairs_for_cut)))]
        g = rand_gate2(rng, a, b, pool2)
        if budget * cost(g["name"]) > cap:
            continue
        budget *= cost(g["name"])
        g["cut"] = True
        pos = int(rng.integers(0, len(gates) + 1))
        gates.insert(pos, g)
        ncut += 1
    if form in ("dict_explicit", "single_pcq"):
        # every two-qubit gate across labels is cut by the package: mark them (they are exactly the inserted ones)
        pass
    # observables
    nobs = int(rng.integers(1, 6))
    obs = []
    refuse_case = bool(idle and rng.integers(0, 4) == 0)
    for k in range(nobs):
        r = rng.integers(0, 10)
        if r == 0 and obs:
            obs.append(list(obs[int(rng.integers(0, len(obs)))]))       # duplicate
            continue
        if r == 1:
            lets = [0] * n                                              # identity
        else:
            lets = [int(rng.integers(0, 4)) for _ in range(n)]
        for q in idle:
            lets[q] = 0 if q not in idle_kept or rng.integers(0, 2) else lets[q]
        obs.append(lets)
    if refuse_case:
        k = int(rng.integers(0, nobs))
        q = idle[int(rng.integers(0, len(idle)))]
        obs[k] = list(obs[k])
        obs[k][q] = int(rng.integers(1, 4))
    spec = dict(kind="roundtrip", it=it, n=n, form=form, gates=gates,
                labels=[tagged(l) for l in labels], obs=obs, idle=idle)
    # shapes: several quantum registers; labels as a tuple; pre-placed cut gates under explicit labels
    if n >= 2 and rng.integers(0, 4) == 0:
        k = int(rng.integers(1, n))
        spec["regs"] = [k, n - k] if n - k < 2 or rng.integers(0, 2) else [k, 1, n - k - 1]
    if form in ("dict_explicit", "single_pcq") and rng.integers(0, 4) == 0:
        spec["labels_as"] = "tuple"
    if form in ("dict_explicit", "single_pcq"):
        for g in gates:
            if g.get("cut") and rng.integers(0, 4) == 0:
                g["preplaced"] = True
    # histories
    hist = []
    if rng.integers(0, 8) == 0:
        hist.append("definition")
    if rng.integers(0, 10) == 0:
        hist.append("finite_first")
    if by_ids and rng.integers(0, 3) == 0:
        hist.append("ids_desc")
    if hist:
        spec["history"] = hist
    return spec


# ------------------------------------------------------------------------------------------------
# building the request and running the implementation
# ------------------------------------------------------------------------------------------------
def pauli_label(lets):
    return "".join(LETTERS[l] for l in reversed(lets))


def build_circuit(spec, mark_cuts):
    """The input circuit.  mark_cuts: gates flagged `cut` become user-placed TwoQubitQPDGates."""
    if spec.get("regs"):
        qc = QuantumCircuit(*[QuantumRegister(sz, f"r{i}") for i, sz in enumerate(spec["regs"])])
    else:
        qc = QuantumCircuit(spec["n"])
    hist = spec.get("history", [])
    for g in spec["gates"]:
        if g["name"] == "barrier":
            qc.barrier(*g["qubits"])
            continue
        if g["name"] == "reset":
            qc.reset(g["qubits"][0])
            continue
        gate = make_gate(g)
        if (mark_cuts and g.get("cut")) or g.get("preplaced"):
            gate = TwoQubitQPDGate.from_instruction(gate)
            if "definition" in hist:
                try:
                    gate.definition            # a user looking at the gate before cutting
                except Exception:  # noqa: BLE001
                    pass
        qc.append(gate, g["qubits"])
    if "definition" in hist:
        for inst in qc.data:
            try:
                inst.operation.definition
            except Exception:  # noqa: BLE001
                pass
    return qc


def run_pipeline(spec):
    """Returns dict(outcome='ok'|'refused'|'crashed', detail, values, structure-json or None)."""
    form = spec["form"]
    labels = [untag(t) for t in spec["labels"]]
    if spec.get("labels_as") == "tuple":
        labels = tuple(labels)
    elif spec.get("labels_as") == "str":
        labels = "".join(labels)
    observables = PauliList([pauli_label(l) for l in spec["obs"]])
    out = dict(outcome="ok", detail="", values=None, st=None)
    hist = spec.get("history", [])

    def cut_ids():
        ids = [i for i, g in enumerate(spec["gates"]) if g.get("cut")]
        return ids[::-1] if "ids_desc" in hist else ids

    def gen(circs, obs_):
        if "finite_first" in hist:                  # an earlier, finite-budget call on the same problem
            np.random.seed(abs(int(spec.get("it", 0))) + 7)
            generate_cutting_experiments(circs, obs_, 10)
        return generate_cutting_experiments(circs, obs_, np.inf)

    try:
        if form.startswith("dict"):
            if form == "dict_explicit":
                qc = build_circuit(spec, False)
                prob = partition_problem(qc, labels, observables)
            elif form == "dict_marked":
                # cuts marked through cut_gates, then separated with automatic labels
                qc = build_circuit(spec, False)
                marked, _ = cut_gates(qc, cut_ids())
                prob = partition_problem(marked, None, observables)
            else:
                qc = build_circuit(spec, True)
                prob = partition_problem(qc, None, observables)
            subcircuits, bases, subobs = prob.subcircuits, prob.bases, prob.subobservables
            subexps, coeffs = gen(subcircuits, subobs)
            sampler = ExactSampler()
            results = {lab: sampler.run(c).result() for lab, c in subexps.items()}
            values = reconstruct_expectation_values(results, coeffs, subobs)
            part_labels = list(subobs.keys())
            L = []
            bases_match = True
            for lab in part_labels:
                ids = []
                for inst in subcircuits[lab].data:
                    if isinstance(inst.operation, SingleQubitQPDGate):
                        k = int(inst.operation.label.split("_")[-1])
                        ids.append(k)
                        if not (0 <= k < len(bases)) or inst.operation.basis != bases[k]:
                            bases_match = False
                L.append(ids)
            colls = [ObservableCollection(subobs[lab]) for lab in part_labels]
            sub_lists = [subobs[lab] for lab in part_labels]
            counts = [len(subexps.get(lab, [])) for lab in part_labels]
            keys_ok = set(subcircuits.keys()) == set(subobs.keys()) and None not in subobs
            own_items = [(subexps.get(lab, []), subobs[lab], coll) for lab, coll in zip(part_labels, colls)]
        else:
            if form == "single_cut_gates":
                qc = build_circuit(spec, False)
                qpd_circuit, bases_ret = cut_gates(qc, cut_ids())
            else:
                qc = build_circuit(spec, False)
                qpd_circuit = partition_circuit_qubits(qc, labels)
            # generate_cutting_experiments numbers the cuts in CIRCUIT order
            bases = [inst.operation.basis for inst in qpd_circuit.data if isinstance(inst.operation, TwoQubitQPDGate)]
            subexps, coeffs = gen(qpd_circuit, observables)
            results = ExactSampler().run(subexps).result()
            values = reconstruct_expectation_values(results, coeffs, observables)
            L = [list(range(len(bases)))]
            bases_match = True
            colls = [ObservableCollection(observables)]
            sub_lists = [observables]
            counts = [len(subexps)]
            keys_ok = True
            own_items = [(subexps, observables, colls[0])]
    except ValueError as e:
        out.update(outcome="refused", detail=str(e)[:300])
        return out
    except Exception as e:  # noqa: BLE001
        out.update(outcome="crashed", detail=f"{type(e).__name__}: {str(e)[:300]}")
        return out
    # ---- structure ----
    try:
        C = [[Fraction(float(c)) for c in b.coeffs] for b in bases]
        w = generate_qpd_weights(bases, np.inf)
        ordered = sorted(w.items(), key=lambda x: x[1][0], reverse=True)
        pairing_ok = len(ordered) == len(coeffs) and all(o[1][1] == c[1] for o, c in zip(ordered, coeffs))
        # the implementation does not return the joint map ids of a coefficient.  Samples of EQUAL weight may come in
        # any order (the order among ties is not part of any contract): inside a tie the keys are matched to the
        # coefficients by value (both sorted), so only a wrong multiset of coefficients is reported.
        keys = [[int(i) for i in o[0]] for o in ordered]
        cvals = [float(c[0]) for c in coeffs][:len(keys)]
        i = 0
        while i < len(keys):
            j = i
            while j + 1 < len(keys) and ordered[j + 1][1][0] == ordered[i][1][0]:
                j += 1
            if j > i:
                def prod_of(ids):
                    return float(np.prod([float(b.coeffs[m]) for b, m in zip(bases, ids)]))
                ks = sorted(range(i, j + 1), key=lambda t: prod_of(keys[t]))
                cs = sorted(range(i, j + 1), key=lambda t: cvals[t])
                newkeys = list(keys)
                for a_, b_ in zip(ks, cs):
                    newkeys[b_] = keys[a_]
                keys = newkeys
            i = j + 1
        samples = [(k_, Fraction(c_)) for k_, c_ in zip(keys, cvals)]
        parts = []
        for coll, sl in zip(colls, sub_lists):
            sizes = [len(g.commuting_observables) for g in coll.groups]
            lookup = [[(int(m), int(nn)) for m, nn in coll.lookup[o]] for o in sl]
            parts.append((sizes, lookup))
    except Exception as e:  # noqa: BLE001
        out.update(outcome="crashed", detail=f"structure of the returned objects could not be read: {type(e).__name__}: {str(e)[:200]}")
        return out
    own_vals = None
    try:
        if sum(counts) <= OWN_EVAL_MAX_CIRCUITS:
            items = []
            for circs, subs, coll in own_items:
                gidx = [sorted({int(m) for m, _ in coll.lookup[o]}) for o in subs]
                items.append((circs, subs, gidx, len(coll.groups)))
            own_vals = own_reconstruction(items, coeffs, len(spec["obs"]))
    except Exception as e:  # noqa: BLE001
        own_vals = f"own evaluation failed: {type(e).__name__}: {str(e)[:120]}"
    out["own_values"] = own_vals
    try:
        vals = [float(v) for v in values]
    except Exception as e:  # noqa: BLE001
        out.update(outcome="crashed", detail=f"returned values are not numbers: {type(e).__name__}: {str(e)[:200]}")
        return out
    out.update(values=vals,
               st=dict(C=[[str(c) for c in cs] for cs in C], samples=[[s[0], str(s[1])] for s in samples], L=L,
                       parts=[[p[0], [[list(mn) for mn in locs] for locs in p[1]]] for p in parts], counts=counts,
                       nobs=len(spec["obs"]), bases_match=bool(bases_match and pairing_ok and keys_ok),
                       types_ok=bool(isinstance(values, list) and all(isinstance(v, float) for v in values)
                                     and len(values) == len(spec["obs"]))))
    return out


# ------------------------------------------------------------------------------------------------
# the independent oracle: state-vector simulation of the UNCUT circuit (barriers ignored)
# ------------------------------------------------------------------------------------------------
PAULI_M = [np.eye(2, dtype=complex), np.array([[0, 1], [1, 0]], dtype=complex),
           np.array([[0, -1j], [1j, 0]], dtype=complex), np.array([[1, 0], [0, -1]], dtype=complex)]


def apply_matrix(psi, n, mat, qubits):
    """psi: array of shape (2,)*n with axis q = qubit q.  mat: little-endian matrix (qubits[0] least significant)."""
    k = len(qubits)
    m = np.asarray(mat, dtype=complex).reshape((2,) * (2 * k))
    # row/column index bits of m are ordered most-significant first: qubits[k-1], ..., qubits[0]
    axes_in = list(range(k, 2 * k))
    tgt = [qubits[k - 1 - j] for j in range(k)]
    out = np.tensordot(m, psi, axes=(axes_in, tgt))
    # the new axes 0..k-1 correspond to tgt; move them back
    return np.moveaxis(out, list(range(k)), tgt)


P0 = np.array([[1, 0], [0, 0]], dtype=complex)
K01 = np.array([[0, 1], [0, 0]], dtype=complex)      # |0><1| : the outcome-1 branch of a reset, flipped back to |0>


def uncut_expectations(spec):
    """<P_k> of the uncut circuit.  The state is a list of unnormalised pure branches (a reset splits every branch in
    two: P0 psi and |0><1| psi), so circuits with resets are covered without a density matrix."""
    n = spec["n"]
    psi = np.zeros((2,) * n, dtype=complex)
    psi[(0,) * n] = 1.0
    branches = [psi]
    for g in spec["gates"]:
        if g["name"] == "barrier":
            continue
        if g["name"] == "reset":
            q = g["qubits"]
            nb = []
            for b in branches:
                for K in (P0, K01):
                    c = apply_matrix(b, n, K, q)
                    if float(np.vdot(c.reshape(-1), c.reshape(-1)).real) > 1e-30:
                        nb.append(c)
            branches = nb
            continue
        if g["name"] in ("unitary1", "unitary2"):
            mat = mat_from_json(g["matrix"])
        else:
            mat = Operator(make_gate(g)).data
        branches = [apply_matrix(b, n, mat, g["qubits"]) for b in branches]
    vals = []
    for lets in spec["obs"]:
        tot = 0.0
        for b in branches:
            phi = b
            for q, l in enumerate(lets):
                if l:
                    phi = apply_matrix(phi, n, PAULI_M[l], [q])
            tot += float(np.real(np.vdot(b.reshape(-1), phi.reshape(-1))))
        vals.append(tot)
    return vals


# ------------------------------------------------------------------------------------------------
# the harness's OWN evaluation of the returned subexperiments and OWN reconstruction sum (observe_at item 2):
# localises a wrong number to generation (own reconstruction of the returned circuits is wrong too) or to
# reconstruction (own reconstruction of the returned circuits is right, the package's value is not)
# ------------------------------------------------------------------------------------------------
def own_distribution(qc):
    """{clbit integer: probability} of a circuit with mid-circuit measurements and resets, by branch splitting."""
    n = qc.num_qubits
    psi = np.zeros((2,) * n, dtype=complex)
    psi[(0,) * n] = 1.0
    branches = [(psi, 0)]
    P1 = np.array([[0, 0], [0, 1]], dtype=complex)
    for inst in qc.data:
        nm = inst.operation.name
        qs = [qc.find_bit(q).index for q in inst.qubits]
        if nm == "barrier":
            continue
        if nm in ("measure", "reset"):
            cb = qc.find_bit(inst.clbits[0]).index if nm == "measure" else None
            nb = []
            for b, k in branches:
                for outcome, K in ((0, P0), (1, P1 if nm == "measure" else K01)):
                    c = apply_matrix(b, n, K, qs)
                    if float(np.vdot(c.reshape(-1), c.reshape(-1)).real) > 1e-30:
                        k2 = k if cb is None else ((k | (1 << cb)) if outcome else (k & ~(1 << cb)))
                        nb.append((c, k2))
            branches = nb
            continue
        mat = Operator(inst.operation).data
        branches = [(apply_matrix(b, n, mat, qs), k) for b, k in branches]
    dist = {}
    for b, k in branches:
        dist[k] = dist.get(k, 0.0) + float(np.vdot(b.reshape(-1), b.reshape(-1)).real)
    return dist


def own_reconstruction(part_items, coeffs, nobs):
    """part_items: per partition (list of circuits, sub-observables, group index per observable k, #groups).
    value_k = sum_z coeff_z * prod_partitions <(-1)^(qpd parity) * prod_{q in supp P_k} (-1)^(bit measuring q)>."""
    total = np.zeros(nobs)
    dists = []
    for circs, subs, gidx, G in part_items:
        dists.append([own_distribution(c) for c in circs])
    for z, cf in enumerate(coeffs):
        cur = np.ones(nobs)
        for (circs, subs, gidx, G), dd in zip(part_items, dists):
            for k in range(nobs):
                vals = []
                for m in gidx[k]:
                    qc = circs[z * G + m]
                    obs_bits = {}
                    qpd_mask = 0
                    for reg in qc.cregs:
                        if reg.name == "qpd_measurements":
                            for b in reg:
                                qpd_mask |= 1 << qc.find_bit(b).index
                    obs_reg = [r for r in qc.cregs if r.name == "observable_measurements"][0]
                    obs_set = {qc.find_bit(b).index for b in obs_reg}
                    for inst in qc.data:
                        if inst.operation.name == "measure":
                            cb = qc.find_bit(inst.clbits[0]).index
                            if cb in obs_set:
                                obs_bits[qc.find_bit(inst.qubits[0]).index] = cb
                    p = subs[k]
                    supp = [q for q in range(qc.num_qubits) if p.x[q] or p.z[q]]
                    e = 0.0
                    for o, pr in dd[z * G + m].items():
                        par = bin(o & qpd_mask).count("1")
                        for q in supp:
                            par += (o >> obs_bits[q]) & 1
                        e += pr * (-1.0 if par & 1 else 1.0)
                    vals.append(e)
                cur[k] *= float(np.mean(vals))
        total += float(cf[0]) * cur
    return [float(v) for v in total]


def idle_qubits(spec):
    """Qubits the separated form discards: explicit label None, or (automatic labels) untouched by every instruction."""
    touched = set()
    for g in spec["gates"]:
        touched.update(g["qubits"])
    if spec["form"] in ("dict_auto", "dict_marked"):
        return [q for q in range(spec["n"]) if q not in touched]
    if spec["form"] == "dict_explicit":
        return [q for q in range(spec["n"]) if untag(spec["labels"][q]) is None]
    return []


def verdict(spec, impl):
    """Property-level decision on one recorded run (independent of the Coq model)."""
    try:
        truth = uncut_expectations(spec)
    except Exception as e:  # noqa: BLE001
        return dict(violates=False, detail=f"oracle could not simulate the request: {type(e).__name__}: {e}")
    if not any(g["name"] != "barrier" for g in spec["gates"]):
        # the quantifier speaks of circuits BUILT FROM gates; a circuit without any operation (every qubit idle, nothing
        # left to partition) is outside it  (observation: partition_problem(QuantumCircuit(2), None, ["II"]) ->
        # generate -> reconstruct raises IndexError on /repo)
        return dict(violates=False, detail="circuit without any operation: outside the property's quantifier")
    dropped = idle_qubits(spec)
    acts_on_dropped = any(lets[q] != 0 for lets in spec["obs"] for q in dropped)
    non_idle_none = [q for q in dropped if any(q in g["qubits"] for g in spec["gates"])]
    if non_idle_none:
        return dict(violates=False, detail="label None on a used qubit: outside the property's domain")
    oc = impl["outcome"]
    if oc == "crashed":
        return dict(violates=True, detail=f"non-ValueError exception: {impl['detail']}")
    if oc == "refused":
        if acts_on_dropped:
            return dict(violates=False, detail="refused: observable acts on a discarded idle qubit (allowed)")
        return dict(violates=True, detail=f"ValueError for a request whose observables are identity on all idle qubits: {impl['detail']}")
    vals = impl["values"]
    if vals is None or len(vals) != len(truth):
        return dict(violates=True, detail=f"{0 if vals is None else len(vals)} values for {len(truth)} observables")
    err = max(abs(a - b) for a, b in zip(vals, truth)) if truth else 0.0
    tol = value_tolerance(impl)
    if not all(math.isfinite(v) for v in vals) or err > tol:
        own = impl.get("own_values")
        loc = ""
        if isinstance(own, list) and len(own) == len(truth):
            own_err = max(abs(a - b) for a, b in zip(own, truth))
            loc = (" [own reconstruction of the RETURNED subexperiments also deviates: generation side]" if own_err > tol
                   else " [own reconstruction of the returned subexperiments gives the right value: reconstruction side]")
        return dict(violates=True, detail=loc.strip() + " " + f"reconstructed {vals} but the uncut circuit has {truth} (max deviation {err:.3e})"
                                          + (" [observable on a discarded idle qubit]" if acts_on_dropped else ""))
    return dict(violates=False, detail=f"max deviation {err:.2e}" + (" (answered a request on a discarded qubit, correctly)" if acts_on_dropped else ""))


# ------------------------------------------------------------------------------------------------
# Coq case
# ------------------------------------------------------------------------------------------------
def coq_pauli(lets):
    return Raw(f"(P 0 [{'; '.join(str(l) for l in lets)}])")


def coq_case(spec, impl, numbers_ok):
    separated = spec["form"].startswith("dict")
    dropped = set(idle_qubits(spec))
    intern = Interner()
    ls = []
    for q in range(spec["n"]):
        if q in dropped:
            ls.append(Opt(None))
        elif spec["form"] == "dict_explicit":
            ls.append(Opt(intern(untag(spec["labels"][q]))))
        else:
            ls.append(Opt(0))
    ps = [coq_pauli(l) for l in spec["obs"]]
    if impl["outcome"] != "ok":
        return (separated, ls, ps, Res(impl["outcome"]))
    st = impl["st"]
    atol = Fraction(float(_weights_mod._NONZERO_ATOL))
    lo = atol * Fraction(999999, 1000000)
    hi = atol * Fraction(1000001, 1000000)
    tol = Fraction(1, 10 ** 12)
    side = bool(st["bases_match"] and st["types_ok"] and numbers_ok)
    structure = (
        [[Qc(Fraction(c)) for c in cs] for cs in st["C"]],
        [(list(s[0]), Qc(Fraction(s[1]))) for s in st["samples"]],
        [list(l) for l in st["L"]],
        [(list(p[0]), [[(int(mn[0]), int(mn[1])) for mn in locs] for locs in p[1]]) for p in st["parts"]],
        [Nc(c) for c in st["counts"]],
        int(st["nobs"]),
        (Qc(lo), Qc(hi), Qc(tol)),
        side,
    )
    return (separated, ls, ps, Res("ok", structure))


CASE_TYPES = {"chk_roundtrip": "case"}


def one_case(w, spec):
    impl = run_pipeline(spec)
    v = verdict(spec, impl)
    numbers_ok = not v["violates"]
    js = dict(spec)
    js["impl"] = dict(outcome=impl["outcome"], detail=impl["detail"], values=impl["values"], st=impl["st"],
                      own_values=impl.get("own_values"))
    st = impl["st"] or {}
    own = impl.get("own_values")
    if impl["outcome"] == "ok":
        if isinstance(own, list) and impl["values"] is not None:
            agree = max([abs(a - b) for a, b in zip(own, impl["values"])] or [0.0]) <= value_tolerance(impl)
            w.count("own_reconstruction_vs_package", "agrees" if agree else "DIFFERS")
        else:
            w.count("own_reconstruction_vs_package", "skipped (large)" if own is None else "own evaluation failed")
    ncuts = len(st.get("C", []))
    nsamples = len(st.get("samples", []))
    # judge must work from the stored JSON alone and must not flag a case the live oracle accepted
    try:
        jv = judge(json.loads(json.dumps(js, default=str)))
        w.contract("judge_accepts_clean_case", (not jv.get("violates")) or (not numbers_ok))
    except Exception:  # noqa: BLE001
        w.contract("judge_accepts_clean_case", False)
    w.add("roundtrip", "chk_roundtrip", coq_case(spec, impl, numbers_ok), js,
          nontrivial=(impl["outcome"] == "ok" and ncuts >= 1) or impl["outcome"] == "refused")
    w.count("form", spec["form"])
    w.count("stream", spec.get("stream", "fixed" if spec.get("it") == -1 else "uniform"))
    w.count("outcome", impl["outcome"])
    w.count("qubits", spec["n"])
    w.count("cuts", ncuts if impl["outcome"] == "ok" else "n/a")
    w.count("partitions", len(st.get("L", [])) if impl["outcome"] == "ok" else "n/a")
    w.count("idle_qubits", len(spec["idle"]))
    w.count("observables", len(spec["obs"]))
    w.count("samples", "0" if impl["outcome"] != "ok" else ("1" if nsamples == 1 else "<=6" if nsamples <= 6 else "<=36" if nsamples <= 36 else "<=216" if nsamples <= 216 else ">216"))
    for g in spec["gates"]:
        if g.get("cut"):
            w.count("cut_gate", g["name"])
    w.count("oracle", "agrees" if numbers_ok else "DISAGREES")
    if impl["outcome"] == "ok":
        # monitors of what the composition assumes about the package's own oracles
        w.contract("values_are_floats_one_per_observable", st["types_ok"])
        w.contract("halves_carry_the_basis_of_their_cut", st["bases_match"])
    return sum(st.get("counts", []))


def fixed_specs():
    """Hand-written corner requests that always run first."""
    T = tagged
    specs = []
    # the F4 witness class: 3 qubits, h0; cx01, automatic labels, IZZ (value) and ZZZ (refusal)
    base = [dict(name="h", params=[], qubits=[0]), dict(name="cx", params=[], qubits=[0, 1])]
    for obs in ([[3, 3, 0]], [[3, 3, 3]]):
        specs.append(dict(kind="roundtrip", it=-1, n=3, form="dict_auto", gates=[dict(g) for g in base],
                          labels=[T(None)] * 3, obs=obs, idle=[2]))
        specs.append(dict(kind="roundtrip", it=-1, n=3, form="dict_explicit", gates=[dict(g) for g in base],
                          labels=[T("A"), T("A"), T(None)], obs=obs, idle=[2]))
    # the Coq example: h0; cx01 cut between A | B, observables ZZ, XX, IZ
    specs.append(dict(kind="roundtrip", it=-1, n=2, form="dict_explicit", gates=[dict(g) for g in base],
                      labels=[T("A"), T("B")], obs=[[3, 3], [1, 1], [3, 0]], idle=[]))
    # two cuts on the same pair, exotic labels, a barrier across the cut
    g2 = [dict(name="ry", params=[0.7], qubits=[0]), dict(name="rzz", params=[0.3], qubits=[0, 1]),
          dict(name="barrier", params=[], qubits=[0, 1, 2]), dict(name="cx", params=[], qubits=[1, 2]),
          dict(name="crx", params=[1.1], qubits=[2, 0])]
    specs.append(dict(kind="roundtrip", it=-1, n=3, form="dict_explicit", gates=g2,
                      labels=[T((1, 2)), T(3.5), T(3.5)], obs=[[1, 2, 3], [3, 3, 3], [0, 0, 0], [1, 2, 3]], idle=[]))
    # unseparated forms
    g3 = [dict(name="h", params=[], qubits=[0]), dict(name="swap", params=[], qubits=[0, 1], cut=True),
          dict(name="t", params=[], qubits=[1])]
    specs.append(dict(kind="roundtrip", it=-1, n=2, form="single_cut_gates", gates=g3, labels=[T(0), T(0)],
                      obs=[[3, 1], [2, 2]], idle=[]))
    specs.append(dict(kind="roundtrip", it=-1, n=3, form="single_pcq", gates=g2, labels=[T("A"), T("B"), T("B")],
                      obs=[[1, 0, 3], [3, 3, 0]], idle=[]))
    return specs


SIX_MAP_GATES = [("rzz", [0.9]), ("rxx", [0.4]), ("ryy", [0.7]), ("cx", []), ("cz", []), ("cy", []), ("ch", []),
                 ("crx", [0.8]), ("cry", [1.3]), ("crz", [1.1]), ("cp", [0.6]), ("csx", []), ("cs", []), ("ecr", [])]
ASYMMETRIC_GATES = [("cx", []), ("cy", []), ("ch", []), ("crx", [0.8]), ("cry", [1.3]), ("csx", []), ("ecr", []),
                    ("cs", []), ("csdg", [])]
EXOTIC = [(1, 2), 3.5, "foo", frozenset([1]), -7, "", ("a", 0), True]


def _rot_layer(rng, qubits):
    """Generic one-qubit rotations so that every Pauli expectation is sensitive to what follows."""
    out = []
    for q in qubits:
        out.append(dict(name="ry", params=[float(rng.uniform(0.3, 1.2))], qubits=[q]))
        out.append(dict(name="rx", params=[float(rng.uniform(0.3, 1.2))], qubits=[q]))
    return out


def _g2(nm_params, a, b, cut=False):
    g = dict(name=nm_params[0], params=list(nm_params[1]), qubits=[a, b])
    if cut:
        g["cut"] = True
    return g


def _dense_obs(rng, n, k, idle=()):
    obs = []
    for _ in range(k):
        lets = [int(rng.integers(1, 4)) for _ in range(n)]
        for q in idle:
            lets[q] = 0
        obs.append(lets)
    return obs


def targeted_specs(rng, tier):
    """Streams aimed at bookkeeping that the uniform stream reaches only rarely (each found by a seeded change)."""
    T = tagged
    specs = []
    rep = 1 if tier == "quick" else 4
    # (a) order of `bases` against the cut ids: >= 3 partitions, cut 0 between partitions that are NOT the first one
    #     in dict order, a later cut touching the first partition, different gates with equally many maps
    for i in range(12 * rep):
        nparts = 3 if i % 3 else 4
        two = bool(i % 2)                                  # first partition has two qubits
        sizes = [2 if (two and p == 0) else 1 for p in range(nparts)]
        part_of = [p for p, sz in enumerate(sizes) for _ in range(sz)]
        n = len(part_of)
        first_q = [part_of.index(p) for p in range(nparts)]
        if i % 4 == 0:
            names = list(range(nparts))                    # what automatic labelling would give
        elif i % 4 == 1:
            names = ["A", "B", "C", "D"][:nparts]
        else:
            names = [EXOTIC[int(j)] for j in rng.permutation(len(EXOTIC))[:nparts]]
        labels = [names[p] for p in part_of]
        gsel = [SIX_MAP_GATES[int(j)] for j in rng.permutation(len(SIX_MAP_GATES))[:3]]
        gates = _rot_layer(rng, range(n))
        if two:
            gates.append(_g2(("cx", []), 0, 1))
        b, c = first_q[1], first_q[2]
        gates.append(_g2(gsel[0], *( (b, c) if rng.integers(0, 2) else (c, b) )))          # cut 0: B - C
        other = first_q[int(rng.integers(1, nparts))]
        a = int(rng.integers(0, sizes[0]))
        gates += _rot_layer(rng, [b, c])
        gates.append(_g2(gsel[1], *( (a, other) if rng.integers(0, 2) else (other, a) )))  # cut 1: A - x
        if nparts == 4 and rng.integers(0, 2) and tier != "quick":   # three cuts: 216 samples x 4 partitions
            gates.append(_g2(gsel[2], first_q[3], first_q[1]))                                # cut 2: D - B
        gates += _rot_layer(rng, range(n))
        obs = _dense_obs(rng, n, 2 if tier == "quick" else 3) + [[3] * n]
        specs.append(dict(kind="roundtrip", it=-2, n=n, form="dict_explicit", gates=gates,
                          labels=[T(l) for l in labels], obs=obs, idle=[], stream="bases_order"))
    # (b) X-only observables on a discarded idle qubit (true value 0; must be refused or answered with 0)
    for i in range(8 * rep):
        n = 3 + (i % 2)
        idle = [int(rng.integers(0, n))]
        act = [q for q in range(n) if q not in idle]
        gates = _rot_layer(rng, act) + [_g2(SIX_MAP_GATES[int(rng.integers(0, len(SIX_MAP_GATES)))], act[0], act[1], cut=True)]
        gates += _rot_layer(rng, act)
        form = ["dict_explicit", "dict_auto", "dict_marked"][i % 3]
        labels = [None if q in idle else ("L", act.index(q)) for q in range(n)]
        if len(act) == 3:
            labels[act[2]] = labels[act[1]]
            gates.append(_g2(("cz", []), act[1], act[2]))
        obs = []
        for _ in range(1 + i % 3):
            lets = [3 if rng.integers(0, 3) else int(rng.integers(0, 4)) for _ in range(n)]
            lets[idle[0]] = 1 if rng.integers(0, 4) else 0
            obs.append(lets)
        obs[0][idle[0]] = 1
        specs.append(dict(kind="roundtrip", it=-2, n=n, form=form, gates=gates, labels=[T(l) for l in labels],
                          obs=obs, idle=idle, stream="idle_x_only"))
    # (c) asymmetric gates with DESCENDING operands cut through cut_gates: unseparated, and marked + partition_problem
    for i in range(10 * rep):
        n = 3
        hi, lo = (2, 1) if i % 3 else (1, 0)
        g1 = ASYMMETRIC_GATES[int(rng.integers(0, len(ASYMMETRIC_GATES)))]
        gates = _rot_layer(rng, range(n)) + [_g2(g1, hi, lo, cut=True)] + _rot_layer(rng, [hi, lo])
        if i % 2:
            gates.append(_g2(SIX_MAP_GATES[int(rng.integers(0, len(SIX_MAP_GATES)))], lo, hi, cut=bool(i % 4 == 1)))
        rest = [q for q in range(n) if q not in (hi, lo)][0]
        gates.append(_g2(("cz", []), rest, hi if rest > hi else lo))
        gates += _rot_layer(rng, range(n))
        specs.append(dict(kind="roundtrip", it=-2, n=n, form=("single_cut_gates" if i % 2 == 0 else "dict_marked"),
                          gates=gates, labels=[T(0)] * n, obs=_dense_obs(rng, n, 3) + [[3, 3, 3]], idle=[],
                          stream="descending_cut_gates"))
        if i % 3 != 2:
            specs[-1]["regs"] = [[1, 2], [2, 1]][i % 3]          # qubit index != index inside its register
    # (d) a measured X / Y above an identity (or Z) inside one partition: clbit index != qubit index
    for i in range(8 * rep):
        n = 4
        labels = ["A", "A", "A", "B"] if i % 2 == 0 else [0, 0, 1, 1]
        gates = _rot_layer(rng, range(n)) + [_g2(("cx", []), 0, 1)]
        gates.append(_g2(("cz", []), 1, 2) if i % 2 == 0 else _g2(("cx", []), 2, 3))
        gates.append(_g2(SIX_MAP_GATES[int(rng.integers(0, len(SIX_MAP_GATES)))], 1, 2) if i % 2 else _g2(("rzz", [0.9]), 2, 3))
        gates += _rot_layer(rng, range(n))
        obs = [[0, 2, 0, 0], [0, 0, 2, 3] if i % 2 == 0 else [0, 2, 0, 2], [0, 3, 1, 0], [0, 1, 0, 1], [3, 0, 2, 1]]
        form = ["dict_explicit", "single_pcq"][(i // 2) % 2]
        specs.append(dict(kind="roundtrip", it=-2, n=n, form=form, gates=gates, labels=[T(l) for l in labels],
                          obs=obs, idle=[], stream="measured_above_identity"))
    # (e) resets in the input circuit: mid-circuit, and as the LAST operation on a measured qubit
    for i in range(6 * rep):
        n = 3
        cutg = SIX_MAP_GATES[int(rng.integers(0, len(SIX_MAP_GATES)))]
        gates = _rot_layer(rng, range(n)) + [_g2(("cx", []), 0, 1)]
        if i % 3 == 0:
            gates.append(dict(name="reset", params=[], qubits=[0]))
            gates += _rot_layer(rng, [0])
        gates.append(_g2(cutg, 1, 2, cut=True))
        gates += _rot_layer(rng, [1, 2] if i % 2 else [0, 1])
        last = [2, 0, 1][i % 3]
        gates.append(dict(name="reset", params=[], qubits=[last]))
        if i % 2 and last != 0:
            gates.append(dict(name="reset", params=[], qubits=[0]))
        obs = _dense_obs(rng, n, 2) + [[3, 3, 3], [3 if q == last else 0 for q in range(n)]]
        form = ["dict_explicit", "single_cut_gates", "dict_auto", "dict_marked"][i % 4]
        specs.append(dict(kind="roundtrip", it=-2, n=n, form=form, gates=gates, labels=[T("A"), T("A"), T("B")],
                          obs=obs, idle=[], stream="resets"))
    # (f) shapes: several registers, labels as str / tuple, pre-placed cut gates under explicit labels
    for i in range(8 * rep):
        n = 4
        g_pre = ASYMMETRIC_GATES[int(rng.integers(0, len(ASYMMETRIC_GATES)))]
        g_auto = SIX_MAP_GATES[int(rng.integers(0, len(SIX_MAP_GATES)))]
        gates = _rot_layer(rng, range(n)) + [_g2(("cx", []), 0, 1), _g2(("cz", []), 3, 2)]
        pre = _g2(g_pre, 2, 1) if i % 2 == 0 else _g2(g_pre, 1, 0)      # across the partitions / inside partition A
        pre["preplaced"] = True
        pre["cut"] = True
        gates.append(pre)
        gates += _rot_layer(rng, [1, 2])
        gates.append(_g2(g_auto, 1, 3, cut=True))                         # cut by the labels
        gates += _rot_layer(rng, range(n))
        spec = dict(kind="roundtrip", it=-2, n=n, form=("dict_explicit" if i % 4 != 3 else "single_pcq"), gates=gates,
                    labels=[T("A"), T("A"), T("B"), T("B")], obs=_dense_obs(rng, n, 3) + [[3, 3, 3, 3]], idle=[],
                    stream="shapes")
        spec["regs"] = [[1, 3], [2, 2], [1, 2, 1], [3, 1]][i % 4]
        spec["labels_as"] = ["str", "tuple", "list"][i % 3]
        specs.append(spec)
    # (g) histories: .definition read before the call, a finite-budget call first, cut_gates with descending gate ids
    for i in range(6 * rep):
        n = 3
        ga = ASYMMETRIC_GATES[int(rng.integers(0, len(ASYMMETRIC_GATES)))]
        gb = SIX_MAP_GATES[int(rng.integers(0, len(SIX_MAP_GATES)))]
        gates = _rot_layer(rng, range(n)) + [_g2(ga, 0, 1, cut=True)] + _rot_layer(rng, [0, 1]) + [_g2(gb, 2, 1, cut=True)]
        gates += _rot_layer(rng, range(n))
        form = ["dict_auto", "single_cut_gates", "dict_marked", "dict_explicit", "single_cut_gates", "dict_marked"][i % 6]
        spec = dict(kind="roundtrip", it=-2 - i, n=n, form=form, gates=gates, labels=[T(0), T(1), T(2)],
                    obs=_dense_obs(rng, n, 3) + [[3, 3, 3]], idle=[], stream="histories")
        spec["history"] = [["definition"], ["ids_desc"], ["ids_desc", "finite_first"], ["definition", "finite_first"],
                           ["ids_desc", "definition"], ["ids_desc"]][i % 6]
        if form == "dict_explicit":
            for g in gates:
                if g.get("cut"):
                    g["preplaced"] = True
        specs.append(spec)
    # (h) KAK-path gates just off the special points of the Weyl chamber
    for i in range(6 * rep):
        nm = KAK_PARAM[i % 3]
        ang = float(NEAR_SPECIAL[int(rng.integers(0, len(NEAR_SPECIAL)))])
        params = [ang] if nm == "rzx" else [ang, float(rng.uniform(-1, 1))]
        gates = _rot_layer(rng, range(2)) + [dict(name=nm, params=params, qubits=[0, 1] if i % 2 else [1, 0], cut=True)]
        gates += _rot_layer(rng, range(2))
        specs.append(dict(kind="roundtrip", it=-2, n=2, form=("dict_explicit" if i % 2 else "single_cut_gates"), gates=gates,
                          labels=[T("A"), T("B")], obs=_dense_obs(rng, 2, 3) + [[3, 3]], idle=[], stream="near_special_kak"))
    # (i) a qubit whose ONLY instructions are marked cut gates, automatic labels: it is not idle and must be kept
    for i in range(8 * rep):
        n = 3 + (i % 2)
        t = [n - 1, 0, 1][i % 3]                                 # the qubit touched only by cut gates
        others = [q for q in range(n) if q != t]
        g1 = [("cx", []), ("cz", []), ("rzz", [0.9]), ("crx", [0.8])][i % 4] if i < 4 else \
            SIX_MAP_GATES[int(rng.integers(0, len(SIX_MAP_GATES)))]
        gates = _rot_layer(rng, others)
        if len(others) == 3:
            gates.append(_g2(("cx", []), others[1], others[2]))
        gates.append(_g2(g1, others[0], t, cut=True) if i % 2 == 0 else _g2(g1, t, others[0], cut=True))
        gates += _rot_layer(rng, others)
        if i % 4 >= 2:                                           # a second cut gate on the same lonely qubit
            gates.append(_g2(SIX_MAP_GATES[int(rng.integers(0, len(SIX_MAP_GATES)))], t, others[1], cut=True))
        gates.append(_g2(("cz", []), others[0], others[1]))
        obs = [[3 if q == t else int(rng.integers(0, 4)) for q in range(n)], [1 if q == t else 3 for q in range(n)]]
        obs += _dense_obs(rng, n, 1)
        specs.append(dict(kind="roundtrip", it=-2, n=n, form=("dict_auto" if i % 2 == 0 else "dict_marked"), gates=gates,
                          labels=[T(None)] * n, obs=obs, idle=[], stream="only_cut_gates"))
    # (j) controlled rotations and cp with |theta| in (pi, 4 pi): theta is NOT periodic mod 2 pi for them
    big = [1.5 * math.pi, -2.5 * math.pi, 3.3 * math.pi, -1.2 * math.pi, 2.7 * math.pi, -3.9 * math.pi]
    for i in range(6 * rep):
        nm = ["crx", "cry", "crz", "cp", "crx", "cry"][i % 6]
        th = big[i % 6] if i < 6 else float(rng.choice([-1, 1]) * rng.uniform(1.05 * math.pi, 3.95 * math.pi))
        gates = _rot_layer(rng, range(2)) + [dict(name=nm, params=[th], qubits=[0, 1] if i % 2 == 0 else [1, 0], cut=True)]
        gates += _rot_layer(rng, range(2))
        form = ["dict_explicit", "single_cut_gates", "dict_auto"][i % 3]
        specs.append(dict(kind="roundtrip", it=-2, n=2, form=form, gates=gates, labels=[T("A"), T("B")],
                          obs=_dense_obs(rng, 2, 3) + [[3, 3]], idle=[], stream="big_angle_controlled"))
    # (k) weakly entangling cuts: 2-3 cuts with |theta| in [1e-4, 1e-3]; the products of their small coefficients give joint
    #     maps of probability between the 1e-14 cut-off and ~1e-8 that MUST be in the exact weights
    weak = [("rzz", 2e-4), ("rxx", -1.9e-4), ("ryy", 1.8e-4), ("rzz", -7e-4), ("rxx", 1e-3), ("ryy", -1e-4), ("crz", 4e-4), ("cp", -3e-4)]
    for i in range(6 * rep):
        n = 4
        labels = [["A", "C", "B", "B"], ["A", "B", "C", "C"], [0, 1, 2, 2]][i % 3]
        sel = [weak[(i + j) % len(weak)] for j in range(3)]
        if i >= 6:
            sel = [(nm, float(rng.choice([-1, 1]) * 10 ** rng.uniform(-4, -3))) for nm, _ in sel]
        gates = _rot_layer(rng, range(n)) + [_g2(("cx", []), 2, 3)]
        gates.append(_g2((sel[0][0], [sel[0][1]]), 0, 1, cut=True))
        gates += _rot_layer(rng, [0, 1])
        gates.append(_g2((sel[1][0], [sel[1][1]]), 2, 1, cut=True))            # descending operands
        if i == 0 or (tier != "quick" and i % 2 == 0):
            gates += _rot_layer(rng, [0, 2])
            gates.append(_g2((sel[2][0], [sel[2][1]]), 0, 2, cut=True))
        gates += _rot_layer(rng, range(n))
        form = ["dict_explicit", "single_cut_gates", "dict_marked", "single_pcq", "dict_auto", "dict_explicit"][i % 6]
        specs.append(dict(kind="roundtrip", it=-2, n=n, form=form, gates=gates, labels=[T(l) for l in labels],
                          obs=_dense_obs(rng, n, 1) + [[3, 3, 3, 3]], idle=[], stream="weak_cuts"))
    # (l) unseparated circuit, THREE cut gates marked through cut_gates, a generic (non-commuting) one-qubit gate IMMEDIATELY
    #     before each cut gate on that gate's SECOND operand (or the previous cut gate itself ends on that qubit): the two
    #     halves of every cut must be placed where the cut gate stood, after everything that precedes it in the data
    cx_family = [("cx", []), ("cz", []), ("cy", []), ("ch", [])]      # 6 maps each: 216 samples, one observable group
    for i in range(4 * rep):
        n = 4 if i % 4 == 1 else 3
        gates = _rot_layer(rng, range(n))
        prev_first = None
        for k in range(3):
            if i % 4 == 3 and k > 0:
                b = prev_first                                  # back to back: second operand = previous cut's first one
                a = [q for q in range(n) if q != b][int(rng.integers(0, n - 1))]
            else:
                a, b = [int(q) for q in rng.permutation(n)[:2]]
                first = [dict(name="rx", params=[float(rng.uniform(0.4, 1.2))], qubits=[a])] if rng.integers(0, 2) else []
                pre = [dict(name="u", params=[float(rng.uniform(0.5, 1.3)), float(rng.uniform(0.4, 1.2)), float(rng.uniform(0.4, 1.2))],
                            qubits=[b]),
                       dict(name="h", params=[], qubits=[b])][0 if rng.integers(0, 3) else 1]
                gates += first + [pre]                          # `pre` is the instruction directly in front of the cut gate
            gates.append(_g2(cx_family[int(rng.integers(0, len(cx_family)))], a, b, cut=True))
            prev_first = a
        gates += _rot_layer(rng, range(n))
        dense = _dense_obs(rng, n, 1)[0]
        sub = [l if rng.integers(0, 2) else 0 for l in dense]  # qubit-wise commuting with `dense`: one group
        specs.append(dict(kind="roundtrip", it=-2, n=n, form="single_cut_gates", gates=gates, labels=[T(0)] * n,
                          obs=[dense, sub, list(dense)], idle=[], stream="gate_before_third_cut"))
    return specs


def generate(rng, tier, outdir):
    w = CaseWriter(outdir, IMPORTS, CASE_TYPES)
    w.SHARD = 16  # the structural check enumerates the whole product space: keep shards small, they run in parallel
    # deterministic budget: a number of requests and a cap on the total number of subexperiments simulated
    max_cases = 200 if tier == "quick" else 1200
    max_circuits = 4500 if tier == "quick" else 160000
    t0 = time.time()
    ncirc = 0
    for spec in fixed_specs():
        ncirc += one_case(w, spec)
    ntarget = 0
    for spec in targeted_specs(rng, tier):
        ncirc += one_case(w, spec)
        ntarget += 1
    it = 0
    base = ncirc                      # the targeted streams have their own (bounded) cost
    while it < max_cases and ncirc - base < max_circuits:
        spec = gen_spec(rng, tier, it)
        ncirc += one_case(w, spec)
        it += 1
    w.notes.append(f"{it} generated requests + {ntarget} targeted + {len(fixed_specs())} fixed ones, {ncirc} subexperiments simulated, {time.time() - t0:.1f}s")
    return w.finish(
        rule="random circuits on 1..5 (thorough: 6) qubits from every supported two-qubit gate family (registered names at special, "
             "rational-circle, tiny and generic angles; rzx, xx_plus_yy, xx_minus_yy and Haar-random 4x4 unitaries through the KAK "
             "path), one-qubit gates rx ry rz p u h s sdg t tdg sx x y z and random 2x2 unitaries, partial/full barriers; 1..4 "
             "partitions with exotic hashable labels, automatic labels (user-placed TwoQubitQPDGates), idle qubits labelled None / "
             "automatically / kept under a real label; 1..5 Pauli observables with duplicates, identity, mixed letters, sometimes "
             "non-identity on an idle qubit (refusal stream); 0..3 cuts between any pairs of partitions under a cap on the number "
             "of sampled joint maps (300 quick, 2600 thorough; three cuts only with the cx family in quick); call forms dict (also cut_gates followed by partition_problem with automatic labels) "
             "(partition_problem, explicit or automatic labels) and unseparated (cut_gates, partition_circuit_qubits). "
             "Targeted streams (about 40 requests): >= 3 partitions with cut 0 away from the first partition and different "
             "six-map gates (order of `bases` against the cut ids); X-only observables on a discarded idle qubit; asymmetric "
             "gates with descending operands cut through cut_gates (unseparated and marked + partition_problem); measured X/Y "
             "above an identity inside a partition; resets (mid-circuit and last on a measured qubit); shapes (several quantum "
             "registers, labels as str/tuple, pre-placed TwoQubitQPDGates under explicit labels across and inside partitions); "
             "histories (.definition read before the call, a finite-budget generate first, descending gate ids for cut_gates); "
             "rzx / xx_plus_yy / xx_minus_yy at 1e-4..1e-6 off the special angles; a qubit touched only by marked cut gates under "
             "automatic labels; crx/cry/crz/cp with |theta| in (pi, 4 pi); 2-3 weakly entangling cuts (|theta| in [1e-4, 1e-3]) whose "
             "joint maps have probabilities between the cut-off and 1e-8; three cx-family cut gates marked via cut_gates in ONE unseparated circuit, each "
             "directly preceded by a generic one-qubit gate on its second operand (or by the previous cut gate ending there). Values are compared at 1e-10 * kappa (cap 1e-7). The uniform stream also draws resets, "
             "registers, tuple labels, pre-placed gates and histories. "
             "distinct = distinct Coq case literal; non-trivial = at least one cut reconstructed, or a refusal",
    )


# ------------------------------------------------------------------------------------------------
# property-level oracle and replay
# ------------------------------------------------------------------------------------------------
def judge(case):
    """Works from the case JSON alone; never raises."""
    try:
        return verdict(case, case["impl"])
    except Exception as e:  # noqa: BLE001
        return dict(violates=False, detail=f"judge could not evaluate this case ({type(e).__name__}: {e})")


def rerun(case):
    impl = run_pipeline(case)
    case["impl"] = dict(outcome=impl["outcome"], detail=impl["detail"], values=impl["values"], st=impl["st"],
                        own_values=impl.get("own_values"))
    return case


def witness(name):
    """Known-finding witnesses (F4: idle qubit under automatic labels, observable IZZ must be answered with 1.0)."""
    if name != "F4":
        return dict(fails=None, detail=f"no witness named {name}")
    spec = fixed_specs()[0]
    impl = run_pipeline(spec)
    v = verdict(spec, impl)
    return dict(fails=bool(v["violates"]), detail=v["detail"])

"""C04 correspondence: qpd/weights.py  vs  Model/Weights.v.

Streams
  sorted    _generate_exact_weights_and_conditional_probabilities_assume_sorted : SEQUENCE of yields
            against dfs_spec AND the step machine (run_machine)
  unsorted  _generate_exact_weights_and_conditional_probabilities with the argsort permutations recorded
  weights   _generate_qpd_weights with numpy.random.choice replaced by a recording/replaying stub
  law       as weights, but EVERY answer sequence of the oracle is enumerated (samples_needed <= 3):
            each leaf is a weights case; the aggregated expectation is compared with expected_weight
  public    generate_qpd_weights on QPDBasis objects (final stable sort)
  public-history  as public, but the QPDBasis objects are RE-USED: built with other coefficient vectors, touched
            (probabilities read / weights generated / untouched), then given the case's vectors through the coeffs setter
  gates     real gate bases (cx, rzz(0.3), swap, ...) : structure exact, numbers within 1e-9
  malformed N < 1 / NaN / -inf, all-zero basis, empty basis

Why the dyadic stream is exact in binary64.  Basis b has entries that are non-negative integer multiples of
u_b = 2^-k_b and sum to 1.  Every intermediate value of the implementation (running products over a prefix,
table entries p*norm, norms = sums of table entries, every partial sum inside np.sum, weight_to_sample) is a
sub-probability mass: a non-negative integer multiple of 2^-K, K = sum_b k_b, bounded by 1.  Such numbers are
binary64-representable when K <= 53, and IEEE operations whose exact result is representable are exact.  With
N = n / 2^j <= 2^m the products N*p are multiples of 2^-(K+j) bounded by 2^m: representable when K+j+m <= 53.
threshold = 1/N is rounded unless N is a power of two; a comparison x < fl(1/N), x >= fl(1/N) of a binary64 x
agrees with the comparison against 1/N unless x == fl(1/N) (no binary64 number lies strictly between), and
x == fl(1/N) is excluded per case by checking that fl(1/N) is not a multiple of 2^-K (else the case is
skipped and counted).  The same argument covers the 1e-14 cut-off.  Divisions (normalised tables, sampled
weights) are compared within tolerance unless the divisor is a power of two.  The generator asserts the budget.
"""
from __future__ import annotations

import itertools
import math
from fractions import Fraction

import numpy as np

import qiskit_addon_cutting.qpd.weights as W
from qiskit_addon_cutting.qpd import QPDBasis, WeightType, generate_qpd_weights

from common import CaseWriter, Res, Raw, Qc, call_canon, coq

IMPORTS = ("From Coq Require Import QArith.\n"
           "From CKT Require Import Common.Base Model.Weights Corr.C04Corr.\n"
           "Close Scope Q_scope.")
CASE_TYPES = {
    "chk_sorted": "list (list Q) * Q * nat * Q * Q * list yield",
    "chk_unsorted": "list (list Q) * list (list nat) * Q * Q * Q * list yield",
    "chk_weights": "list (list Q) * list (list nat) * num * list nat * (Q * Q * Q) * res wdict * list (nat * nat * list Q)",
    "chk_public": "list (list Q) * list (list nat) * num * list nat * (Q * Q * Q) * res wdict",
    "chk_public_coeffs": "list (list Q) * list (list nat) * num * list nat * (Q * Q * Q) * res wdict",
    "chk_public_set": "list (list Q) * list (list nat) * num * list nat * (Q * Q * Q) * res wdict",
    "chk_expected": "list (list Q) * list (list nat) * num * Q * list (key * Q)",
}
ATOL = Fraction(1, 10**14)
GEN_SORTED = W._generate_exact_weights_and_conditional_probabilities_assume_sorted
GEN_UNSORTED = W._generate_exact_weights_and_conditional_probabilities


# --------------------------------------------------------------------------------------
# Fractions <-> JSON / Coq
# --------------------------------------------------------------------------------------
def fr(x):
    return Fraction(float(x)) if not isinstance(x, Fraction) else x


def jq(x):
    x = Fraction(x)
    return [x.numerator, x.denominator]


def unq(p):
    return Fraction(int(p[0]), int(p[1]))


def cq(x):
    return Qc(Fraction(x))


def coq_probs(probs):
    return [[cq(x) for x in v] for v in probs]


def coq_num(N):
    if isinstance(N, Fraction):
        return Raw(f"(Fin {coq(Qc(N))})")
    return Raw({"inf": "PInf", "-inf": "NInf", "nan": "NaN"}[N])


def num_float(N):
    if isinstance(N, Fraction):
        f = float(N)
        assert Fraction(f) == N
        return f
    return {"inf": math.inf, "-inf": -math.inf, "nan": math.nan}[N]


def jnum(N):
    return ["fin", jq(N)] if isinstance(N, Fraction) else [N]


def unjnum(j):
    return unq(j[1]) if j[0] == "fin" else j[0]


def arrays(probs):
    out = []
    for v in probs:
        a = np.array([float(x) for x in v], dtype=float)
        assert all(Fraction(float(a[i])) == Fraction(v[i]) for i in range(len(v))), "input not binary64"
        out.append(a)
    return out


# --------------------------------------------------------------------------------------
# canonical outputs
# --------------------------------------------------------------------------------------
def canon_yields(gen):
    """list of ('F', state, Fraction) | ('C', state, [Fraction])  in generator order."""
    out = []
    for st, val in gen:
        st = [int(i) for i in st]
        if isinstance(val, np.ndarray):
            out.append(("C", st, [fr(x) for x in val]))
        else:
            out.append(("F", st, fr(val)))
    return out


CRASH_SENTINEL = [("C", [], []), ("C", [], [])]      # a yield sequence the model can never produce


def run_yields(gen_fn, arrs, thr):
    """list(generator) with exceptions canonicalised: (yields, None) | (sentinel, 'Type: msg')."""
    try:
        return canon_yields(gen_fn(arrs, thr)), None
    except Exception as e:  # noqa: BLE001
        return list(CRASH_SENTINEL), f"{type(e).__name__}: {str(e)[:200]}"


def jimpl(ys, err):
    return [["X", err]] if err else [jyield(y) for y in ys]


def coq_yield(y):
    if y[0] == "F":
        return Raw(f"(YF {coq(y[1])} {coq(cq(y[2]))})")
    return Raw(f"(YC {coq(y[1])} {coq([cq(x) for x in y[2]])})")


def jyield(y):
    return [y[0], y[1], jq(y[2])] if y[0] == "F" else [y[0], y[1], [jq(x) for x in y[2]]]


def canon_dict(d):
    return [([int(i) for i in k], fr(v[0]), "E" if v[1] == WeightType.EXACT else "S") for k, v in d.items()]


def coq_dict(items):
    return [(k, (cq(wt), Raw("E" if t == "E" else "S_"))) for k, wt, t in items]


def jdict(items):
    return [[k, jq(wt), t] for k, wt, t in items]


# --------------------------------------------------------------------------------------
# the numpy.random.choice stub
# --------------------------------------------------------------------------------------
class ChoiceStub:
    """Replaces numpy.random.choice.  `policy(n, k, p, position)` returns k indices.
    Records (n, k, p) of every call and the concatenated answers (the tape)."""

    def __init__(self, policy):
        self.policy = policy
        self.calls = []
        self.tape = []
        self.contract_ok = True
        self.args_modified = []

    def __call__(self, a, size=None, replace=True, p=None):
        n = len(a)
        k = int(size)
        p = np.asarray(p, dtype=float)
        if list(a) != list(range(n)):
            self.contract_ok = False
        # exactly numpy's own argument checks (numpy/random/mtrand.pyx: choice)
        if p.ndim != 1 or p.shape[0] != n:
            raise ValueError("'a' and 'p' must have same size")
        if np.any(np.isnan(p)):
            raise ValueError("probabilities contain NaN")
        if np.any(p < 0):
            raise ValueError("probabilities are not non-negative")
        if abs(math.fsum(p) - 1.0) > math.sqrt(np.finfo(np.float64).eps):
            raise ValueError("probabilities do not sum to 1")
        if not replace and k > int(np.count_nonzero(p > 0)):
            raise ValueError("Fewer non-zero entries in p than size")
        draws = [int(x) for x in self.policy(n, k, p, len(self.tape))]
        assert len(draws) == k
        self.calls.append((n, k, [fr(x) for x in p]))
        self.tape.extend(draws)
        return np.array(draws, dtype=np.int64)


ORIG_CHOICE = np.random.choice


class patched_choice:
    def __init__(self, stub):
        self.stub = stub

    def __enter__(self):
        self.old = np.random.choice
        np.random.choice = self.stub
        return self.stub

    def __exit__(self, *a):
        np.random.choice = self.old


def seeded_policy(rng):
    """answers come from the REAL numpy.random.choice on the global RandomState (seeded from rng), recorded by the stub"""
    def pol(n, k, p, pos):
        np.random.seed(int(rng.integers(0, 2**32 - 1)))
        return ORIG_CHOICE(range(n), k, p=p)
    return pol


def replay_policy(tape):
    def pol(n, k, p, pos):
        return tape[pos:pos + k]
    return pol


class ScriptPolicy:
    """Plays positions-in-support from `script`; beyond it, always the first supported index.
    trace: per draw (support, probabilities of the support as Fractions, chosen position)."""

    def __init__(self, script):
        self.script = list(script)
        self.trace = []

    def __call__(self, n, k, p, pos):
        out = []
        supp = [i for i in range(n) if p[i] > 0]
        for _ in range(k):
            j = len(self.trace)
            c = self.script[j] if j < len(self.script) else 0
            self.trace.append((supp, [fr(p[i]) for i in supp], c))
            out.append(supp[c])
        return out


def finite_result(r):
    """a returned dictionary with a NaN/inf weight or a malformed key is canonicalised as a crash"""
    if r[0] != "ok":
        return r
    try:
        for k, v in r[1].items():
            if not all(int(i) == i and i >= 0 for i in k) or not math.isfinite(float(v[0])) or v[1] not in (WeightType.EXACT, WeightType.SAMPLED):
                return ("crashed", f"malformed entry {k!r}: {v!r}"[:200])
    except Exception as e:  # noqa: BLE001
        return ("crashed", f"malformed result: {type(e).__name__}: {e}"[:200])
    return r


def snapshot(arrs):
    """bit-exact picture of a list of float vectors"""
    return [[float(x).hex() for x in np.asarray(a, dtype=float).ravel()] for a in arrs]


def modified_args(before, after, what):
    out = []
    for j, (a, b) in enumerate(zip(before, after)):
        for i, (x, y) in enumerate(zip(a, b)):
            if x != y:
                out.append(f"{what}[{j}][{i}]: {float.fromhex(x)!r} -> {float.fromhex(y)!r}")
        if len(a) != len(b):
            out.append(f"{what}[{j}]: length {len(a)} -> {len(b)}")
    return out[:6]


def run_weights(probs, N, policy):
    stub = ChoiceStub(policy)
    arrs = arrays(probs)
    before = snapshot(arrs)
    with patched_choice(stub):
        r = finite_result(call_canon(W._generate_qpd_weights, arrs, num_float(N)))
    stub.args_modified = modified_args(before, snapshot(arrs), "independent_probabilities")
    return r, stub


def argsort_perms(probs):
    return [[int(i) for i in np.argsort(a)[::-1]] for a in arrays(probs)]


def perms_ok(probs, perms):
    for v, p in zip(probs, perms):
        if sorted(p) != list(range(len(v))):
            return False
        s = [v[i] for i in p]
        if any(s[i] < s[i + 1] for i in range(len(s) - 1)):
            return False
    return True


# --------------------------------------------------------------------------------------
# input generators (dyadic, with a mantissa budget)
# --------------------------------------------------------------------------------------
TINY_EXPS = [27, 30, 34, 40, 44, 45, 46, 46, 47, 48, 50]   # 2^-27..2^-46 lie in (1e-14, 1e-8): ABOVE the cut-off (2^-46 = 1.42e-14
                                                            # just above), 2^-47.. below


def dyadic_vec(rng, n, kmax):
    """n non-negative multiples of 2^-k (k <= kmax) summing to exactly 1; zeros and ties are frequent.
    Returns (vector of Fractions, k)."""
    if n == 1:
        return [Fraction(1)], 0
    style = int(rng.integers(0, 4))
    if style == 0 or kmax <= 1:      # random composition of 2^k
        k = int(rng.integers(1, max(2, kmax + 1)))
        k = min(k, kmax) if kmax >= 1 else 0
        total = 1 << k
        cuts = sorted(int(c) for c in rng.integers(0, total + 1, size=n - 1))
        parts = [b - a for a, b in zip([0] + cuts, cuts + [total])]
    else:                             # small integer weights, completed to a power of two (many ties)
        pool = [0, 1, 1, 1, 2, 2, 3, 4, 6][: 3 + 2 * style]
        parts = [int(pool[int(rng.integers(0, len(pool)))]) for _ in range(n)]
        s = sum(parts)
        total = 1
        while total < max(s, 1):
            total *= 2
        parts[int(rng.integers(0, n))] += total - s
        k = total.bit_length() - 1
        if k > kmax:                  # fall back to a composition
            return dyadic_vec_comp(rng, n, kmax)
    order = rng.permutation(n)
    parts = [parts[i] for i in order]
    v = [Fraction(x, 1 << k) for x in parts]
    assert sum(v) == 1
    return v, k


def dyadic_vec_comp(rng, n, kmax):
    k = max(kmax, 0)
    total = 1 << k
    cuts = sorted(int(c) for c in rng.integers(0, total + 1, size=n - 1))
    parts = [b - a for a, b in zip([0] + cuts, cuts + [total])]
    v = [Fraction(x, total) for x in parts]
    assert sum(v) == 1
    return v, k


def with_tiny(rng, v, e):
    """move 2*2^-e (or 2^-e) of mass from the largest entry to one or two new tiny entries; unit becomes 2^-e."""
    v = list(v)
    j = max(range(len(v)), key=lambda i: v[i])
    t = Fraction(1, 1 << e)
    if rng.integers(0, 2):
        v[j] -= 2 * t
        new = [t, t]
    else:
        v[j] -= t
        new = [t]
    for x in new:
        v.insert(int(rng.integers(0, len(v) + 1)), x)
    assert sum(v) == 1 and all(x >= 0 for x in v)
    return v, e


def gen_probs(rng, tier, budget=51, force_tiny=None):
    """1..4 bases; returns (probs, K) with K = sum of unit exponents <= budget."""
    nb = int(rng.choice([1, 2, 2, 3, 3, 4]))
    tiny = bool(rng.integers(0, 3) == 0) if force_tiny is None else force_tiny
    tiny_at = int(rng.integers(0, nb)) if tiny else -1
    e = int(rng.choice(TINY_EXPS)) if tiny else 0
    avail = budget - e
    probs, K = [], 0
    for b in range(nb):
        n = int(rng.choice([1, 2, 2, 3, 3, 4, 5, 6, 8]))
        if tier == "thorough" and not tiny and nb <= 2 and rng.integers(0, 20) == 0:
            n = int(rng.choice([16, 32, 58]))
        if b == tiny_at:
            v, _ = dyadic_vec(rng, n, 3)
            v, k = with_tiny(rng, v, e)
        elif tiny:
            others_left = sum(1 for bb in range(b, nb) if bb != tiny_at)
            v, k = dyadic_vec(rng, n, max(0, min(3, avail // max(1, others_left))))
            avail -= k
        else:
            share = (avail - K) // max(1, nb - b)
            v, k = dyadic_vec(rng, n, max(1, min(6 if n > 8 else 4, share)))
        probs.append(v)
        K += k
    assert K <= budget, (K, budget)
    return probs, K


def gen_N(rng, K):
    """budget N = n/2^j with K + j + m <= 53 (N <= 2^m).  Returns Fraction | 'inf'."""
    room = 53 - K
    r = int(rng.integers(0, 100))
    if r < 6:
        return "inf"
    if r < 40:
        m = min(3, room)
        return Fraction(int(rng.integers(1, (1 << m) + 1)))
    if r < 70:
        m = min(6, room)
        return Fraction(int(rng.integers(1, (1 << m) + 1)))
    if r < 85 and room >= 5:
        j = int(rng.integers(1, 4))
        m = min(5, room - j)
        n = int(rng.integers(1 << j, (1 << (m + j)) + 1))
        return Fraction(n, 1 << j)
    m = min(20, room)
    return Fraction(1 << int(rng.integers(0, m + 1))) if rng.integers(0, 2) else Fraction(int(rng.integers(1, (1 << m) + 1)))


def threshold_safe(N, K):
    """comparisons against fl(1/N) agree with comparisons against 1/N for all multiples of 2^-K."""
    if not isinstance(N, Fraction):
        return True
    t = Fraction(1.0 / float(N))
    if t == 1 / N:
        return True
    return (t * (1 << K)).denominator != 1


def n_joint(probs):
    n = 1
    for v in probs:
        n *= len(v)
    return n


def tree_size(probs):
    t = 0
    for v in reversed(probs):
        t = len(v) * (1 + t)
    return t


def pow2(n):
    return n >= 1 and (n & (n - 1)) == 0


def budget_ok(K, N):
    if not isinstance(N, Fraction):
        return K <= 53
    j = N.denominator.bit_length() - 1
    assert N.denominator == 1 << j
    m = 0
    while (1 << m) < N:
        m += 1
    return K + j + m <= 53


# --------------------------------------------------------------------------------------
# case builders
# --------------------------------------------------------------------------------------
TOLC = Fraction(1, 10**12)


def tols_for(N, calls, exact=True):
    """(tolx, tols, tolc) of a weights case."""
    if not exact:
        t = Fraction(1, 10**9)
        return (t, t, t)
    sn = calls[0][1] if calls else 1
    big = max(Fraction(1), N if isinstance(N, Fraction) else Fraction(1))
    tols = Fraction(0) if pow2(sn) else big / 10**15
    return (Fraction(0), tols, TOLC)


def weights_case(w, group, probs, N, policy, exact=True, extra=None, perms=None):
    """run _generate_qpd_weights under the stub and add one chk_weights case; returns (r, stub, json)."""
    r, stub = run_weights(probs, N, policy)
    if len(stub.tape) > 3000 or any(k >= 4000 for _, k, _ in stub.calls):
        w.count("weights.oversize_skipped", group)        # too many draws for a Coq literal; not a verdict
        return r, stub, None
    perms = argsort_perms(probs) if perms is None else perms
    w.contract("argsort_is_descending_permutation", perms_ok(probs, perms))
    w.contract("choice_called_with_a_distribution", stub.contract_ok)
    if r[0] == "ok":
        items = canon_dict(r[1])
        exp = Res("ok", coq_dict(items))
        impl = ["ok", jdict(items)]
    else:
        items = None
        exp = Res(r[0])
        impl = [r[0], r[1]]
    tl = tols_for(N, stub.calls, exact)
    calls = [(n, k, [cq(x) for x in p]) for n, k, p in stub.calls]
    w.contract("arguments_unchanged", not stub.args_modified)
    js = dict(kind="weights", probs=[[jq(x) for x in v] for v in probs], N=jnum(N), tape=list(stub.tape),
              perms=perms, impl=impl, exact=exact, args_modified=list(stub.args_modified))
    if extra:
        js.update(extra)
    w.add(group, "chk_weights",
          (coq_probs(probs), perms, coq_num(N), list(stub.tape), tuple(cq(t) for t in tl), exp, calls),
          js, nontrivial=(r[0] == "ok" and len(items) > 1))
    return r, stub, js


def branch_of(probs, N, r, stub):
    """which branch of _generate_qpd_weights the request took (reconstructed from the outside, for the evidence)"""
    if r[0] != "ok":
        return r[0]
    if not isinstance(N, Fraction):
        return "all-exact(inf)"
    thr = 1 / N
    sm = Fraction(1)
    for v in probs:
        big = [x for x in v if x > ATOL]
        if not big:
            return "?"
        sm *= min(big)
    if sm >= thr:
        return "all-exact"
    types = {v[1] for v in r[1].values()}
    if stub.calls:
        return "sampled+exact" if WeightType.EXACT in types else "sampled-only"
    lg = Fraction(1)
    for v in probs:
        lg *= max(v)
    jt = joint_table(probs) if n_joint(probs) <= 6000 else {}
    if any(tuple(int(i) for i in k) in jt and jt[tuple(int(i) for i in k)] < thr for k in r[1]):
        return "single-leftover"
    return "nothing-left-to-sample"


def outcome_class(r, stub):
    if r[0] != "ok":
        return r[0]
    types = {v[1] for v in r[1].values()}
    if stub.calls:
        return "sampled"
    return "exact-only"


def generate(rng, tier, outdir):
    w = CaseWriter(outdir, IMPORTS, case_types=CASE_TYPES)
    quick = tier == "quick"
    n_sorted = 220 if quick else 2500
    n_unsorted = 150 if quick else 2000
    n_weights = 420 if quick else 5000
    n_law = 22 if quick else 200
    n_public = 60 if quick else 500
    n_gates = 24 if quick else 150
    skipped = 0

    # ---------------- sorted generator: sequence of yields, spec and machine ----------------
    for it in range(n_sorted):
        probs, K = gen_probs(rng, tier)
        mode = int(rng.integers(0, 10))
        if mode < 8:                                   # the documented precondition: descending
            probs = [sorted(v, reverse=True) for v in probs]
        # thresholds: dyadic, around the masses that occur
        t = int(rng.integers(0, 12))
        thr = Fraction(int(rng.integers(1, 9)), 1 << t) if rng.integers(0, 6) else Fraction(1, 1 << int(rng.integers(0, 30)))
        if tree_size(probs) > 150000:
            skipped += 1
            continue
        ys, err = run_yields(GEN_SORTED, arrays(probs), float(thr))
        w.count("sorted.outcome", "crashed" if err else "ok")
        fuel = 2 * tree_size(probs) + 2
        w.add("sorted", "chk_sorted",
              (coq_probs(probs), cq(thr), Raw(f"(N.to_nat {fuel}%N)"), cq(0), cq(TOLC), [coq_yield(y) for y in ys]),
              dict(kind="sorted", probs=[[jq(x) for x in v] for v in probs], thr=jq(thr), impl=jimpl(ys, err)),
              nontrivial=(len(ys) > 1))
        w.count("sorted.bases", len(probs))
        w.count("sorted.yields", min(len(ys), 20))
        w.count("sorted.cond_yields", min(sum(1 for y in ys if y[0] == "C"), 8))
        w.count("sorted.input", "descending" if mode < 8 else "unsorted")

    # ---------------- permutation wrapper ----------------
    for it in range(n_unsorted):
        probs, K = gen_probs(rng, tier)
        N = gen_N(rng, K)
        thr = Fraction(1, 1 << int(rng.integers(0, 14))) if not isinstance(N, Fraction) or rng.integers(0, 3) == 0 else Fraction(1.0 / float(N))
        if tree_size(probs) > 150000:
            skipped += 1
            continue
        perms = argsort_perms(probs)
        w.contract("argsort_is_descending_permutation", perms_ok(probs, perms))
        ys, err = run_yields(GEN_UNSORTED, arrays(probs), float(thr))
        w.count("unsorted.outcome", "crashed" if err else "ok")
        w.add("unsorted", "chk_unsorted",
              (coq_probs(probs), perms, cq(thr), cq(0), cq(TOLC), [coq_yield(y) for y in ys]),
              dict(kind="unsorted", probs=[[jq(x) for x in v] for v in probs], thr=jq(thr), perms=perms,
                   impl=jimpl(ys, err)),
              nontrivial=(len(ys) > 1))
        w.count("unsorted.ties", "ties" if any(len(set(v)) < len(v) for v in probs) else "distinct")
        w.count("unsorted.yields", min(len(ys), 20))

    # ---------------- _generate_qpd_weights, seeded draws ----------------
    done = 0
    attempts = 0
    while done < n_weights and attempts < 20 * n_weights:
        attempts += 1
        probs, K = gen_probs(rng, tier)
        if attempts % 97 == 5:
            probs, K = [], 0                      # no gate was cut: one empty joint map of probability 1
        N = gen_N(rng, K)
        if not budget_ok(K, N) or not threshold_safe(N, K):
            skipped += 1
            continue
        if n_joint(probs) > 6000:
            # keep the all-exact enumeration and the brute-force oracle affordable
            skipped += 1
            continue
        r, stub, js = weights_case(w, "weights", probs, N, seeded_policy(rng))
        if js is None:
            continue
        done += 1
        w.count("weights.outcome", outcome_class(r, stub))
        w.count("weights.branch", branch_of(probs, N, r, stub))
        w.count("weights.bases", len(probs))
        w.count("weights.N", "inf" if N == "inf" else ("integer" if N.denominator == 1 else "fractional"))
        w.count("weights.samples_needed", min(stub.calls[0][1], 33) if stub.calls else 0)
        w.count("weights.tiny_entries", "yes" if any(0 < x < Fraction(1, 1 << 40) for v in probs for x in v) else "no")
        w.count("weights.entries_between_cutoff_and_1e-8",
                ("sampled-tail" if stub.calls else "no-sampling") if any(ATOL < x < Fraction(1, 10**8) for v in probs for x in v) else "none")
        w.count("weights.choice_calls", min(len(stub.calls), 12))

    # ---------------- malformed requests ----------------
    bad_N = ["nan", "-inf", Fraction(0), Fraction(1, 2), Fraction(-3), Fraction(1) - Fraction(1, 1 << 53), Fraction(-1, 4)]
    for it in range(40 if quick else 400):
        probs, K = gen_probs(rng, tier, force_tiny=False)
        mode = int(rng.integers(0, 5))
        N = bad_N[int(rng.integers(0, len(bad_N)))] if mode < 2 else Fraction(int(rng.integers(1, 9)))
        if mode == 4:      # a basis without maps: np.min of an empty array -> ValueError
            probs[int(rng.integers(0, len(probs)))] = []
        if mode == 2:      # an all-zero basis: np.min of an empty selection -> ValueError
            j = int(rng.integers(0, len(probs)))
            probs[j] = [Fraction(0)] * len(probs[j])
        if mode == 3:      # only sub-cutoff entries
            j = int(rng.integers(0, len(probs)))
            probs[j] = [Fraction(1, 1 << 50)] * len(probs[j])
        if n_joint(probs) > 6000:
            continue
        r, stub, js = weights_case(w, "malformed", probs, N, seeded_policy(rng), extra=dict(malformed=True))
        w.count("malformed.outcome", r[0])
        w.count("malformed.kind", ["bad N", "bad N", "zero basis", "sub-cutoff basis", "empty basis"][mode])

    # ---------------- exhaustive law: every answer sequence ----------------
    law_done = 0
    attempts = 0
    while law_done < n_law and attempts < 60 * n_law:
        attempts += 1
        probs, K = gen_probs(rng, tier, force_tiny=bool(rng.integers(0, 3) == 0))
        if len(probs) > 3 or any(len(v) > 4 for v in probs):
            continue
        N = Fraction(int(rng.integers(1, 9)), int(rng.choice([1, 1, 2])))
        if N < 1 or not budget_ok(K, N) or not threshold_safe(N, K):
            continue
        res = enumerate_law(probs, N, limit=48)
        if res is None:
            continue
        leaves, ew = res
        if len(leaves) < 2:
            continue
        law_done += 1
        perms = argsort_perms(probs)
        for (r, stub, pr, _ek) in leaves:
            weights_case(w, "law-leaf", probs, N, replay_policy(list(stub.tape)), extra=dict(law_leaf=True))
        keys = list(itertools.product(*[range(len(v)) for v in probs]))
        ews = [([int(i) for i in k], cq(ew.get(k, Fraction(0)))) for k in keys]
        w.add("law", "chk_expected",
              (coq_probs(probs), perms, coq_num(N), cq(Fraction(1, 10**9)), ews),
              dict(kind="law", probs=[[jq(x) for x in v] for v in probs], N=jnum(N), perms=perms, leaves=len(leaves),
                   expected=[[list(k), jq(ew.get(k, Fraction(0)))] for k in keys],
                   exact_keys=[list(k) for k in leaves[0][3]]),
              nontrivial=True)
        w.count("law.small_entries", "yes" if any(ATOL < x < Fraction(1, 10**8) for v in probs for x in v) else "no")
        w.count("law.leaves", len(leaves))
        w.count("law.samples_needed", leaves[0][1].calls[0][1])

    w.contract("law_stream_nonempty", law_done > 0)
    gen_public(rng, tier, w, n_public)
    gen_public_history(rng, tier, w, 40 if quick else 300)
    gen_gates(rng, tier, w, n_gates)
    gen_gates_public(rng, tier, w, max(6, n_gates // 4))
    # the property-level oracle must accept what the unchanged tree produces (a spread sample of all cases)
    allc = [c[1] for g in w.groups.values() for c in g["cases"]]
    step = max(1, len(allc) // (300 if quick else 1500))
    for c in allc[::step]:
        v = judge(c)
        ok = not v.get("violates")
        w.contract("judge_accepts_clean_case", ok)
        if not ok and len(w.notes) < 8:
            w.notes.append(f"judge flags a generated case ({c.get('kind')}): {v.get('detail')[:300]}")
    w.notes.append(f"float_ambiguous_or_oversize_skipped={skipped}")
    return w.finish(
        rule="dyadic probability vectors (1-4 bases x 1-8 maps, thorough up to 58; zeros, ties, entries 2^-44..2^-50 on both sides of the "
             "1e-14 cut-off, single-map bases) under a 53-bit mantissa budget so that binary64 is exact; N integer / fractional dyadic / inf; "
             "sorted stream also feeds non-descending vectors; weights stream replaces numpy.random.choice by a recording stub (seeded draws), "
             "law stream enumerates every answer sequence for samples_needed<=3; public stream through QPDBasis; public-history stream = the same "
             "on RE-USED QPDBasis objects (1-2 earlier coefficient vectors, probabilities read / weights generated / untouched, then the "
             "case's vectors assigned through the coeffs setter); gates stream = real bases "
             "with 1e-9 tolerance; malformed = N<1/NaN/-inf, all-zero or all-sub-cutoff basis. distinct = distinct Coq case literal; "
             "non-trivial = more than one yield / more than one returned entry",
        extra=dict(extra=dict(float_ambiguous_skipped=skipped)))


# --------------------------------------------------------------------------------------
# exhaustive enumeration of the oracle's answers
# --------------------------------------------------------------------------------------
def enumerate_law(probs, N, limit=48, max_samples=3):
    """All answer sequences of numpy.random.choice (indices of positive probability).
    Returns (leaves, expected_weight_by_key) or None when out of scope/too large.
    leaf = (result, stub, probability of the answer sequence, exact keys)."""
    script = []
    leaves = []
    while True:
        pol = ScriptPolicy(script)
        r, stub = run_weights(probs, N, pol)
        if r[0] != "ok" or not stub.calls or stub.calls[0][1] > max_samples:
            return None
        pr = Fraction(1)
        for supp, ps, c in pol.trace:
            pr *= ps[c]
        exact_keys = [tuple(int(i) for i in k) for k, v in r[1].items() if v[1] == WeightType.EXACT]
        leaves.append((r, stub, pr, exact_keys))
        if len(leaves) > limit:
            return None
        tr = pol.trace
        j = len(tr) - 1
        while j >= 0 and tr[j][2] == len(tr[j][0]) - 1:
            j -= 1
        if j < 0:
            break
        script = [t[2] for t in tr[:j]] + [tr[j][2] + 1]
    ew = {}
    for r, stub, pr, _ in leaves:
        for k, v in r[1].items():
            kk = tuple(int(i) for i in k)
            ew[kk] = ew.get(kk, Fraction(0)) + pr * fr(v[0])
    total = sum(l[2] for l in leaves)
    if abs(total - 1) >= Fraction(1, 10**9):      # the p arguments did not form distributions: leave it to the comparison
        return None
    return leaves, ew


# --------------------------------------------------------------------------------------
# public entry point and real gate bases
# --------------------------------------------------------------------------------------
def make_basis(v, scale, signs):
    """QPDBasis with coefficients +-v*scale; the property's probabilities are |c| / sum|c| = v (exact: scale is a
    power of two).  Whether QPDBasis.probabilities agrees is left to the comparison and to judge."""
    coeffs = [float(x * scale) * s for x, s in zip(v, signs)]
    return QPDBasis([([],)] * len(v), coeffs)


NUM_FORMS = ["float", "int", "np.float64", "np.int64", "default"]


def num_arg(N, form):
    f = num_float(N)
    if form == "int":
        return int(f)
    if form == "np.float64":
        return np.float64(f)
    if form == "np.int64":
        return np.int64(int(f))
    return f


def run_public(bases, N, policy, form="float"):
    stub = ChoiceStub(policy)
    before_p = snapshot([b.probabilities for b in bases])
    before_c = snapshot([b.coeffs for b in bases])
    with patched_choice(stub):
        if form == "default":
            r = call_canon(generate_qpd_weights, bases)
        else:
            r = call_canon(generate_qpd_weights, bases, num_arg(N, form))
    stub.args_modified = (modified_args(before_p, snapshot([b.probabilities for b in bases]), "basis.probabilities")
                          + modified_args(before_c, snapshot([b.coeffs for b in bases]), "basis.coeffs"))
    return finite_result(r), stub


def gen_public(rng, tier, w, n):
    done = 0
    attempts = 0
    while done < n and attempts < 30 * n:
        attempts += 1
        probs, K = gen_probs(rng, tier, force_tiny=False)
        N = gen_N(rng, K)
        if not budget_ok(K, N) or not threshold_safe(N, K) or n_joint(probs) > 3000:
            continue
        scales = [int(rng.choice([1, 2, 4])) for _ in probs]
        signs = [[int(rng.choice([-1, 1])) for _ in v] for v in probs]
        form = NUM_FORMS[int(rng.integers(0, len(NUM_FORMS)))]
        if form == "default":
            N = Fraction(1000)
            if not budget_ok(K, N):
                continue
        if form in ("int", "np.int64") and not (isinstance(N, Fraction) and N.denominator == 1):
            form = "float"
        rb = call_canon(lambda: [make_basis(v, s, sg) for v, s, sg in zip(probs, scales, signs)])
        if rb[0] != "ok":
            r, stub = rb, ChoiceStub(None)
        else:
            r, stub = run_public(rb[1], N, seeded_policy(rng), form)
        if len(stub.tape) > 3000:
            w.count("weights.oversize_skipped", "public")
            continue
        perms = argsort_perms(probs)
        if r[0] == "ok":
            items = canon_dict(r[1])
            exp, impl = Res("ok", coq_dict(items)), ["ok", jdict(items)]
        else:
            items, exp, impl = [], Res(r[0]), [r[0], r[1]]
        tl = tols_for(N, stub.calls)
        coeffs = [[x * sc * sg for x, sg in zip(v, sgs)] for v, sc, sgs in zip(probs, scales, signs)]
        w.add("public", "chk_public_coeffs",
              (coq_probs(coeffs), perms, coq_num(N), list(stub.tape), tuple(cq(t) for t in tl), exp),
              dict(kind="weights", public=True, probs=[[jq(x) for x in v] for v in probs], N=jnum(N), tape=list(stub.tape),
                   perms=perms, impl=impl, exact=True, scales=scales, signs=signs, form=form,
                   args_modified=list(stub.args_modified)),
              nontrivial=(len(items) > 1))
        done += 1
        w.count("public.num_samples_form", form)
        w.count("public.outcome", outcome_class(r, stub))
        w.count("public.types", "+".join(sorted({t for _, _, t in items})) if items else "-")


# --------------------------------------------------------------------------------------
# histories: QPDBasis objects that were used before with OTHER coefficient vectors
# --------------------------------------------------------------------------------------
TOUCHES = ["probabilities", "generate", "generate-inf", "none"]


def signed_coeffs(v, scale, signs):
    return [float(x * scale) * s for x, s in zip(v, signs)]


def touch_bases(bases, how):
    """what an earlier user of the objects did with them (outcome irrelevant; the real numpy sampler, fixed seed)"""
    if how == "probabilities":
        for b in bases:
            call_canon(lambda b=b: list(b.probabilities))
    elif how in ("generate", "generate-inf"):
        np.random.seed(20240)
        call_canon(generate_qpd_weights, bases, 8.0 if how == "generate" else math.inf)


def make_bases_history(probs, scales, signs, history):
    """history = [dict(vecs=[[jq signed coefficient]], touch=...)]: the objects are constructed with the first step's
    vectors, touched, re-assigned (public coeffs setter) and touched for every further step, and finally given the
    case's coefficients +-probs*scale through the setter.  The property's probabilities are those of the CURRENT
    coefficients: |c| / sum|c| = probs."""
    first = history[0]
    bases = [QPDBasis([([],)] * len(c), [float(unq(x)) for x in c]) for c in first["vecs"]]
    touch_bases(bases, first["touch"])
    for step in history[1:]:
        for b, c in zip(bases, step["vecs"]):
            b.coeffs = [float(unq(x)) for x in c]
        touch_bases(bases, step["touch"])
    for b, v, sc, sg in zip(bases, probs, scales, signs):
        b.coeffs = signed_coeffs(v, sc, sg)
    return bases


def gen_public_history(rng, tier, w, n):
    """TARGETED stream for the quantifier's 'histories': the bases handed to generate_qpd_weights are objects with a past."""
    done = 0
    attempts = 0
    while done < n and attempts < 30 * n:
        attempts += 1
        probs, K = gen_probs(rng, tier, force_tiny=False)
        N = gen_N(rng, K)
        if not budget_ok(K, N) or not threshold_safe(N, K) or n_joint(probs) > 3000:
            continue
        if done % 8 != 7 and all(len(v) == 1 for v in probs):
            continue                                   # a single-map basis has only one probability vector
        scales = [int(rng.choice([1, 2, 4])) for _ in probs]
        signs = [[int(rng.choice([-1, 1])) for _ in v] for v in probs]
        history = []
        for _ in range(int(rng.choice([1, 1, 2]))):
            vecs = []
            for v in probs:
                pv, _k = dyadic_vec(rng, len(v), 4)
                sc = int(rng.choice([1, 2, 4]))
                vecs.append([jq(x * sc * int(rng.choice([-1, 1]))) for x in pv])
            history.append(dict(vecs=vecs, touch=TOUCHES[int(rng.integers(0, len(TOUCHES)))]))
        form = "float" if not (isinstance(N, Fraction) and N.denominator == 1 and rng.integers(0, 2)) else "int"
        rb = call_canon(make_bases_history, probs, scales, signs, history)
        if rb[0] != "ok":
            r, stub = rb, ChoiceStub(None)
        else:
            r, stub = run_public(rb[1], N, seeded_policy(rng), form)
        if len(stub.tape) > 3000:
            w.count("weights.oversize_skipped", "public-history")
            continue
        perms = argsort_perms(probs)
        if r[0] == "ok":
            items = canon_dict(r[1])
            exp, impl = Res("ok", coq_dict(items)), ["ok", jdict(items)]
        else:
            items, exp, impl = [], Res(r[0]), [r[0], r[1]]
        tl = tols_for(N, stub.calls)
        coeffs = [[x * sc * sg for x, sg in zip(v, sgs)] for v, sc, sgs in zip(probs, scales, signs)]
        w.add("public-history", "chk_public_coeffs",
              (coq_probs(coeffs), perms, coq_num(N), list(stub.tape), tuple(cq(t) for t in tl), exp),
              dict(kind="weights", public=True, probs=[[jq(x) for x in v] for v in probs], N=jnum(N), tape=list(stub.tape),
                   perms=perms, impl=impl, exact=True, scales=scales, signs=signs, form=form, history=history,
                   args_modified=list(stub.args_modified)),
              nontrivial=(len(items) > 1))
        done += 1
        w.count("public-history.steps", len(history))
        w.count("public-history.last_touch", history[-1]["touch"])
        w.count("public-history.vector_changed",
                "yes" if any([abs(unq(x)) / sum(abs(unq(y)) for y in c) for x in c] != list(v) for c, v in zip(history[-1]["vecs"], probs)) else "no")
        w.count("public-history.outcome", outcome_class(r, stub))
    w.contract("public_history_stream_nonempty", done > 0)


def gate_table():
    from qiskit.circuit.library import CXGate, RZZGate, SwapGate, CZGate, RXXGate, CRXGate, iSwapGate
    return {"cx": CXGate(), "rzz(0.3)": RZZGate(0.3), "swap": SwapGate(), "cz": CZGate(), "rxx(0.7)": RXXGate(0.7),
            "crx(1.1)": CRXGate(1.1), "iswap": iSwapGate(), "rzz(pi)": RZZGate(math.pi), "rzz(pi/2)": RZZGate(math.pi / 2),
            "crx(3.1)": CRXGate(3.1)}


def spec_probabilities(coeffs):
    """the property's sampling probabilities of a basis: |c_i| / sum_j |c_j|  (same summation order as a plain loop)"""
    wts = np.abs(np.asarray(coeffs, dtype=float))
    return wts / sum(wts)


def real_bases():
    """name -> (probabilities as specified from the coefficients, QPDBasis)"""
    out = {}
    for name, g in gate_table().items():
        b = QPDBasis.from_instruction(g)
        out[name] = ([Fraction(float(p)) for p in spec_probabilities(b.coeffs)], b)
    return out


def level_products(probs):
    """multiset of prefix products, per level: list of dict product -> multiplicity."""
    cur = {Fraction(1): 1}
    levels = []
    for v in probs:
        nxt = {}
        for x, c in cur.items():
            for p in v:
                nxt[x * p] = nxt.get(x * p, 0) + c
        levels.append(nxt)
        cur = nxt
    return levels


def gates_safe(probs, N):
    """no comparison of the implementation sits within rounding distance of its boundary."""
    if any(Fraction(1, 10**15) <= x < Fraction(1, 10**6) for v in probs for x in v):
        return False        # float residues far below the cut-off (sin(pi) ~ 1e-16) are fine, anything near it is not
    if not isinstance(N, Fraction):
        return True
    thr = 1 / N
    lv = level_products(probs)
    for d in lv:
        for x in d:
            if abs(x - thr) < Fraction(1, 10**11):
                return False
    resid = sum(x * c for x, c in lv[-1].items() if x < thr)
    y = resid * N
    if resid > 0 and abs(y - round(y)) < Fraction(1, 10**7):
        return False
    return True


def gen_gates(rng, tier, w, n):
    rb = real_bases()
    names = list(rb)
    fixed = [["cx"], ["rzz(0.3)"], ["swap"], ["cx", "rzz(0.3)"], ["cx", "swap"], ["rzz(0.3)", "rzz(0.3)", "cx"], ["rzz(pi)", "cx"]]
    done = 0
    attempts = 0
    while done < n and attempts < 40 * n:
        attempts += 1
        combo = fixed[done] if done < len(fixed) else [names[int(i)] for i in rng.integers(0, len(names), size=int(rng.integers(1, 4)))]
        probs = [rb[c][0] for c in combo]
        w.contract("probabilities_are_abs_coeffs_over_kappa", all([Fraction(float(x)) for x in rb[c][1].probabilities] == rb[c][0] for c in combo))
        if n_joint(probs) > 4000:
            continue
        r0 = int(rng.integers(0, 10))
        N = ("inf" if r0 == 0 else Fraction(int(rng.integers(1, 40))) if r0 < 4 else Fraction(int(rng.integers(1, 3000))) if r0 < 6
             else Fraction(int(rng.integers(2, 120)), 2) if r0 < 8
             else Fraction(float(rng.choice([2.3, 6.000001, 17.9, 36.5, 100.7, 1000.7]))))
        if not gates_safe(probs, N):
            w.count("gates.skipped_near_boundary", "+".join(combo))
            continue
        if isinstance(N, Fraction) and N > 300 and sum(x * c for x, c in level_products(probs)[-1].items() if x < 1 / N) * N > 300:
            continue
        r, stub, js = weights_case(w, "gates", probs, N, seeded_policy(rng), exact=False, extra=dict(gates=combo))
        if js is None:
            continue
        done += 1
        w.count("gates.combo", "+".join(combo))
        w.count("gates.outcome", outcome_class(r, stub))


def gen_gates_public(rng, tier, w, n):
    """real bases through the PUBLIC generate_qpd_weights; the model gets the probabilities specified from the
    coefficients, the implementation its own QPDBasis.probabilities."""
    rb = real_bases()
    names = [k for k in rb if k not in ("swap", "iswap")] + ["swap"]
    done = 0
    attempts = 0
    while done < n and attempts < 40 * n:
        attempts += 1
        combo = [names[int(i)] for i in rng.integers(0, len(names), size=int(rng.integers(1, 3)))]
        probs = [rb[c][0] for c in combo]
        if n_joint(probs) > 4000:
            continue
        form = NUM_FORMS[int(rng.integers(0, len(NUM_FORMS)))]
        N = Fraction(1000) if form == "default" else Fraction(int(rng.integers(1, 200)))
        if not gates_safe(probs, N):
            continue
        if sum(x * c for x, c in level_products(probs)[-1].items() if x < 1 / N) * N > 300:
            continue
        r, stub = run_public([rb[c][1] for c in combo], N, seeded_policy(rng), form)
        if len(stub.tape) > 3000:
            w.count("weights.oversize_skipped", "gates-public")
            continue
        perms = argsort_perms(probs)
        if r[0] == "ok":
            items = canon_dict(r[1])
            exp, impl = Res("ok", coq_dict(items)), ["ok", jdict(items)]
        else:
            items, exp, impl = [], Res(r[0]), [r[0], r[1]]
        tl = tols_for(N, stub.calls, False)
        w.add("gates-public", "chk_public_set",
              (coq_probs(probs), perms, coq_num(N), list(stub.tape), tuple(cq(t) for t in tl), exp),
              dict(kind="weights", public=True, from_instruction=combo, probs=[[jq(x) for x in v] for v in probs], N=jnum(N),
                   tape=list(stub.tape), perms=perms, impl=impl, exact=False, form=form, args_modified=list(stub.args_modified)),
              nontrivial=(len(items) > 1))
        done += 1
        w.count("gates-public.combo", "+".join(combo))
        w.count("gates-public.form", form)


# --------------------------------------------------------------------------------------
# property-level oracle: brute force over all joint maps, straight from the property text.
# Independent of the Coq model (never looks at conditional tables except through the law).
# --------------------------------------------------------------------------------------
def joint_table(probs):
    keys = list(itertools.product(*[range(len(v)) for v in probs]))
    out = {}
    for k in keys:
        p = Fraction(1)
        for i, v in zip(k, probs):
            p *= v[i]
        out[k] = p
    return out


def judge_weights(case):
    probs = [[unq(x) for x in v] for v in case["probs"]]
    N = unjnum(case["N"])
    impl = case["impl"]
    exact = case.get("exact", True)
    valid_bases = len(probs) >= 0 and all(len(v) > 0 and all(x >= 0 for x in v) and abs(sum(v) - 1) < Fraction(1, 10**9) for v in probs)
    badN = (N in ("nan", "-inf")) or (isinstance(N, Fraction) and N < 1)
    if badN:
        return dict(violates=impl[0] != "refused", detail=f"N={N}: a budget below 1 must be refused; got {impl[0]}")
    if not valid_bases:
        return dict(violates=False, detail="bases are not probability vectors; property silent")
    if case.get("args_modified"):
        # the bases / probability vectors are INPUTS: the property's weights are a function of them, and a caller that
        # asks twice must get the same law (also C16's business: no argument is modified)
        return dict(violates=True, detail="the call modified its arguments: " + "; ".join(case["args_modified"]))
    if impl[0] != "ok":
        return dict(violates=True, detail=f"valid request (N={N}) ended with {impl[0]}: {impl[1]}")
    items = [(tuple(k), unq(wt), t) for k, wt, t in impl[1]]
    got = {k: (wt, t) for k, wt, t in items}
    if len(got) != len(items):
        return dict(violates=True, detail="duplicate keys")
    jt = joint_table(probs)
    nm = len(jt)
    rel = Fraction(1, 10**12) if exact else Fraction(1, 10**9)
    band = Fraction(0) if exact else Fraction(1, 10**10)
    problems = []
    for k in got:
        if k not in jt:
            problems.append(f"key {k} is not a joint map")
        elif jt[k] == 0:
            problems.append(f"zero-probability map {k} present")
    if N == "inf":
        for k, p in jt.items():
            if abs(p - ATOL) <= ATOL / 100:
                continue
            if p > ATOL:
                if k not in got or got[k][1] != "E" or abs(got[k][0] - p) > rel * p:
                    problems.append(f"infinite budget: map {k} p={float(p)} -> {got.get(k)}")
            elif k in got:
                problems.append(f"infinite budget: negligible map {k} p={float(p)} present")
    else:
        thr = 1 / N
        for k, p in jt.items():
            if p >= thr and abs(p - thr) >= band:
                if k not in got or got[k][1] != "E" or abs(got[k][0] - N * p) > rel * N * p:
                    problems.append(f"map {k} with p={float(p)} >= 1/N must be EXACT with weight {float(N * p)}; got {got.get(k)}")
        # observation O2: maps whose probability is within the cut-off are not counted ("up to the 1e-14 cutoff")
        counted = [k for k in got if k in jt and jt[k] > ATOL * Fraction(101, 100)]
        if len(counted) > math.ceil(N):
            problems.append(f"{len(counted)} entries > ceil(N)={math.ceil(N)}")
        tot = sum(wt for wt, _ in got.values())
        # "sum to N (up to the 1e-14 cutoff)": every table entry that may legitimately be dropped carries mass <= 1e-14,
        # and there are at most (#prefixes of the tree + 1) entries; plus binary64 slack
        slack = N * (tree_size(probs) + 1) * ATOL + (N / 10**13 if exact else N / 10**9)
        if abs(tot - N) > slack:
            problems.append(f"weights sum to {float(tot)!r} not N={float(N)} (deficit {float(N - tot):.3e}, slack {float(slack):.3e})")
        tape = case.get("tape")
        has_sampled = any(t == "S" for _, t in got.values())
        if tape is not None and len(tape) == 0 and not has_sampled:
            # no draw was made: the result is deterministic, so "expected weight = N*p" means weight = N*p for
            # EVERY map of non-negligible probability (single-leftover shortcut, nothing-left-to-sample return)
            for k, p in jt.items():
                if p > ATOL * Fraction(101, 100) and (k not in got or abs(got[k][0] - N * p) > rel * N * p + N * ATOL):
                    problems.append(f"no sampling took place, yet map {k} (p={float(p)!r}) has weight "
                                    f"{float(got[k][0]) if k in got else None!r} instead of N*p={float(N * p)!r}")
            for k, (wt, t) in got.items():
                if k in jt and abs(wt - N * jt[k]) > rel * N * jt[k] + N * ATOL:
                    problems.append(f"no sampling took place, yet entry {k} has weight {float(wt)!r} != N*p={float(N * jt[k])!r}")
        # WeightType: EXACT = "given in proportion to its exact weight", SAMPLED = "determined through some sampling procedure"
        if tape is not None:
            for k, (wt, t) in got.items():
                if k not in jt:
                    continue
                if len(tape) == 0 and t == "S":
                    problems.append(f"entry {k} is typed SAMPLED although numpy.random.choice was never asked")
                if len(tape) > 0 and jt[k] < thr - band and t != "S":
                    problems.append(f"entry {k} (p < 1/N) came out of the sampler but is typed EXACT")
        if tape is not None and len(tape) == 0 and has_sampled and not problems:
            problems.extend(statistical_check(probs, N, jt, {k for k, p in jt.items() if p >= thr}))
    return dict(violates=bool(problems), detail="; ".join(problems[:6]) or "ok")


def statistical_check(probs, N, jt, exact_keys, runs=2000):
    """fallback when the result contains SAMPLED entries although the recording stub saw no call (the sampler went
    around numpy.random.choice): unpatched runs over `runs` seeds; the mean weight of every non-exact map must be N*p
    within 6 standard errors."""
    if len(jt) > 600 or N > 256:
        return []
    arrs = arrays(probs)
    sums = {k: 0.0 for k in jt}
    sq = {k: 0.0 for k in jt}
    for sd in range(runs):
        np.random.seed(sd)
        r = call_canon(W._generate_qpd_weights, arrs, float(N))
        if r[0] != "ok":
            return [f"unpatched run with seed {sd} ended with {r[0]}: {r[1]}"]
        for k, v in r[1].items():
            kk = tuple(int(i) for i in k)
            if kk in sums:
                sums[kk] += float(v[0])
                sq[kk] += float(v[0]) ** 2
    out = []
    for k, p in jt.items():
        if k in exact_keys:
            continue
        mean = sums[k] / runs
        var = max(sq[k] / runs - mean * mean, 0.0)
        se = math.sqrt(var / runs)
        if abs(mean - float(N * p)) > 6 * se + 1e-9 * float(N):
            out.append(f"statistical check ({runs} unpatched runs): map {k} mean weight {mean:.6g} != N*p = {float(N * p):.6g} (se {se:.3g})")
    return out


def judge_law(case):
    probs = [[unq(x) for x in v] for v in case["probs"]]
    N = unjnum(case["N"])
    jt = joint_table(probs)
    ew = {tuple(k): unq(x) for k, x in case["expected"]}
    exact_keys = {tuple(k) for k in case["exact_keys"]}
    problems = []
    slack = N / 10**12 + N * ATOL * 2
    for k, p in jt.items():
        if k in exact_keys:
            continue
        if abs(ew.get(k, Fraction(0)) - N * p) > slack:
            problems.append(f"non-exact map {k}: expected weight {float(ew.get(k, 0))} != N*p = {float(N * p)}")
    return dict(violates=bool(problems), detail="; ".join(problems[:6]) or "ok")


def judge_yields(case):
    """generator level, straight from the property text:
    (1) full states = exactly the maps with product >= thr (for descending input), each once, with its probability;
    (2) tail law implied by the tables (product of the table entries along the prefix, the base probabilities where no
        table was yielded; the top table is not normalised, so the product is the absolute mass): for every map below
        the threshold with p > cutoff the implied mass equals p, hence implied probability == p / (non-exact mass);
    (3) no table zeroes an entry whose true conditional mass exceeds the 1e-14 cut-off times the number of table
        entries at and below it (each of them may legitimately drop a conditional mass <= cutoff)."""
    probs = [[unq(x) for x in v] for v in case["probs"]]
    thr = unq(case["thr"])
    if case["kind"] == "sorted" and any(v != sorted(v, reverse=True) for v in probs):
        return dict(violates=False, detail="input violates the documented precondition (descending); property silent")
    if any(x < 0 for v in probs for x in v) or not probs or any(len(v) == 0 for v in probs):
        return dict(violates=False, detail="not probability vectors; property silent")
    if case["impl"] and case["impl"][0][0] == "X":
        return dict(violates=True, detail=f"the generator raised on a valid input: {case['impl'][0][1]}")
    jt = joint_table(probs)
    D = len(probs)
    full = {}
    cond = {}
    problems = []
    for y in case["impl"]:
        if y[0] == "F":
            k = tuple(y[1])
            if k in full:
                problems.append(f"state {k} yielded twice")
            full[k] = unq(y[2])
        else:
            cond[tuple(y[1])] = [unq(x) for x in y[2]]
    want = {k for k, p in jt.items() if p >= thr}
    if set(full) != want:
        problems.append(f"exact states {sorted(set(full) ^ want)[:5]} differ from brute force")
    for k, p in full.items():
        if k in jt and p != jt[k]:
            problems.append(f"state {k}: probability {float(p)!r} != {float(jt[k])!r}")
    cut = ATOL * Fraction(101, 100)
    for k, p in jt.items():
        if k in want or p <= cut:
            continue
        m = Fraction(1)
        for d in range(D):
            tab = cond.get(k[:d], probs[d])
            m *= tab[k[d]] if k[d] < len(tab) else 0
        if abs(m - p) > p / 10**12:
            problems.append(f"tail map {k}: mass implied by the tables {float(m)!r} != p = {float(p)!r}")
            if len(problems) > 8:
                break
    # (3) zeroed entries
    for pre, tab in cond.items():
        d = len(pre)
        if d >= D or len(tab) != len(probs[d]):
            problems.append(f"table for {pre} has the wrong shape")
            continue
        pp = Fraction(1)
        for j, i in enumerate(pre):
            pp *= probs[j][i]
        if pp == 0:
            continue
        for i, x in enumerate(tab):
            if x != 0:
                continue
            below = sum(p for k, p in jt.items() if k[:d + 1] == pre + (i,) and k not in want)
            # the entry itself and every table entry below it may each drop a conditional mass <= cutoff
            allowed = cut * (1 + tree_size(probs[d + 1:]))
            if below / pp > allowed:
                problems.append(f"table {pre} zeroes entry {i} whose conditional non-exact mass is {float(below / pp):.3e} "
                                f"> {float(allowed):.3e} = cutoff * (entries at and below it)")
    return dict(violates=bool(problems), detail="; ".join(problems[:6]) or "ok")


def judge(case):
    """total: never raises; an input outside the property's range gives violates=False."""
    try:
        k = case.get("kind")
        if k == "weights":
            return judge_weights(case)
        if k == "law":
            return judge_law(case)
        if k in ("sorted", "unsorted"):
            return judge_yields(case)
        return dict(violates=False, detail=f"unknown case kind {k!r}")
    except Exception as e:  # noqa: BLE001
        return dict(violates=False, detail=f"oracle not applicable: {type(e).__name__}: {e}")


# --------------------------------------------------------------------------------------
# replay
# --------------------------------------------------------------------------------------
def rerun(case):
    k = case["kind"]
    probs = [[unq(x) for x in v] for v in case["probs"]]
    if k == "sorted":
        ys, err = run_yields(GEN_SORTED, arrays(probs), float(unq(case["thr"])))
        case["impl"] = jimpl(ys, err)
    elif k == "unsorted":
        ys, err = run_yields(GEN_UNSORTED, arrays(probs), float(unq(case["thr"])))
        case["impl"] = jimpl(ys, err)
    elif k == "weights":
        N = unjnum(case["N"])
        tape = list(case["tape"])

        def pol(n, kk, p, pos):
            if pos + kk <= len(tape):
                return tape[pos:pos + kk]
            supp = [i for i in range(n) if p[i] > 0] or [0]
            return (tape[pos:] + [supp[0]] * kk)[:kk]
        if case.get("from_instruction"):
            gt = gate_table()
            r, stub = run_public([QPDBasis.from_instruction(gt[c]) for c in case["from_instruction"]], N, pol, case.get("form", "float"))
        elif case.get("public") and case.get("history"):
            rb = call_canon(make_bases_history, probs, case["scales"], case["signs"], case["history"])
            r, stub = (rb, None) if rb[0] != "ok" else run_public(rb[1], N, pol, case.get("form", "float"))
        elif case.get("public"):
            rb = call_canon(lambda: [make_basis(v, s, sg) for v, s, sg in zip(probs, case["scales"], case["signs"])])
            r, stub = (rb, None) if rb[0] != "ok" else run_public(rb[1], N, pol, case.get("form", "float"))
        else:
            r, stub = run_weights(probs, N, pol)
        case["impl"] = ["ok", jdict(canon_dict(r[1]))] if r[0] == "ok" else [r[0], r[1]]
        case["args_modified"] = list(getattr(stub, "args_modified", []) or []) if stub is not None else []
    elif k == "law":
        N = unjnum(case["N"])
        res = enumerate_law(probs, N, limit=100000)
        if res is None:
            case["expected"], case["exact_keys"] = [], []
            case["note"] = "implementation no longer samples on this input"
        else:
            leaves, ew = res
            keys = list(itertools.product(*[range(len(v)) for v in probs]))
            case["expected"] = [[list(kk), jq(ew.get(kk, Fraction(0)))] for kk in keys]
            case["exact_keys"] = [list(kk) for kk in leaves[0][3]]
    return case


# --------------------------------------------------------------------------------------
# known-finding witnesses
# --------------------------------------------------------------------------------------
F9_INPUT = dict(kind="weights", probs=[[[1, 2], [1, 2]], [jq(1 - Fraction(1, 1 << 46)), jq(Fraction(1, 1 << 46))]],
                N=["fin", [4, 1]], tape=[], exact=True)


def witness(name):
    if name == "F9":
        case = rerun(dict(F9_INPUT))
        v = judge(case)
        return dict(fails=bool(v["violates"]), detail=v["detail"], canonical_input=F9_INPUT)
    raise ValueError(name)

"""C18 correspondence: the argument validation of every public entry point  vs  Model/Validation.v.

Every case (JSON):
  kind  : entry point (key of KINDS)
  cls   : the class the generator intended ("valid", a documented error class, or "undoc:*")
  desc  : enough to rebuild the real arguments (`rerun`)
  abs   : the input abstraction the model reads (computed from the REAL argument objects)
  impl  : {outcome: ok|refused|crashed, detail, unchanged: bool, final: observed state of the mutable
           argument (three inplace entry points), changed: short description of the first difference}
`judge` re-derives from `abs`, with plain Python predicates written from the property text (order
insensitive, independent of the Coq model), whether the input is one of the documented invalid
inputs; if so the call must have raised ValueError and left every argument unchanged.
"""
from __future__ import annotations

import json
import math
import os
from fractions import Fraction

import numpy as np
from qiskit.circuit import (QuantumCircuit, QuantumRegister, ClassicalRegister, Clbit, Qubit, Parameter, Gate,
                            Instruction, CircuitInstruction)
from qiskit.circuit.library import (HGate, XGate, SGate, TGate, SXGate, ZGate, CXGate, CZGate, SwapGate, ECRGate, CHGate,
                                    iSwapGate, RZZGate, RXXGate, RYYGate, CRXGate, CRYGate, CRZGate, CPhaseGate, RZXGate,
                                    CCXGate, CSwapGate, Measure, Reset, Barrier)
from qiskit.quantum_info import Pauli, PauliList
from qiskit.primitives import SamplerResult, PrimitiveResult
from qiskit.result import QuasiDistribution

from qiskit_addon_cutting import (partition_circuit_qubits, cut_gates, partition_problem, generate_cutting_experiments,
                                  reconstruct_expectation_values, find_cuts, OptimizationParameters, DeviceConstraints,
                                  expand_observables)
from qiskit_addon_cutting.instructions import Move
from qiskit_addon_cutting.qpd import (QPDBasis, TwoQubitQPDGate, SingleQubitQPDGate, BaseQPDGate, WeightType,
                                      generate_qpd_weights, decompose_qpd_instructions)
from qiskit_addon_cutting.qpd.instructions import QPDMeasure
from qiskit_addon_cutting.qpd.decompositions import _qpdbasis_from_instruction_funcs, _theta_from_instruction
from qiskit_addon_cutting.qpd.weights import _generate_qpd_weights
from qiskit_addon_cutting.cut_finding.optimization_settings import OptimizationSettings
from qiskit_addon_cutting.utils.transforms import separate_circuit
from qiskit_addon_cutting.utils.simulation import simulate_statevector_outcomes
from qiskit_addon_cutting.utils.observable_grouping import (most_general_observable, CommutingObservableGroup,
                                                            ObservableCollection)

from common import CaseWriter, Raw, Interner, call_canon, coq, tagged, untag
from circ import CircCtx, circuit_registers

IMPORTS = ("From Coq Require Import QArith.\n"
           "From CKT Require Import Common.Base Model.Validation Corr.C18Corr.\nClose Scope Q_scope.")

ROOT = os.path.dirname(os.path.dirname(os.path.abspath(__file__)))


def known_ids():
    """Finding ids listed as status 'known' for C18 in KNOWN_FINDINGS.json (read-only lookup)."""
    try:
        kf = json.load(open(os.environ.get("CKT_KNOWN_FINDINGS") or os.path.join(ROOT, "KNOWN_FINDINGS.json")))
    except Exception:  # noqa: BLE001
        return set()
    return {e.get("id") for e in kf.get("findings", []) if e.get("property") == "C18" and e.get("status") == "known"}


# --------------------------------------------------------------------------------------
# deep snapshots of arguments
# --------------------------------------------------------------------------------------

def canon_maps(basis, ctx):
    return [[[ctx.bop(o) for o in half] for half in m] for m in basis.maps]


def snap(x, ctx):
    if isinstance(x, QuantumCircuit):
        data = ctx.canon_circuit(x)
        bases = [[canon_maps(i.operation.basis, ctx), [repr(complex(c)) for c in i.operation.basis.coeffs]]
                 if isinstance(i.operation, BaseQPDGate) else None for i in x.data]
        return ["qc", circuit_registers(x), data, bases, repr(x.global_phase), x.name, repr(x.metadata)]
    if isinstance(x, PauliList):
        return ["pl", [str(p) for p in x]]
    if isinstance(x, Pauli):
        return ["p", str(x)]
    if isinstance(x, QPDBasis):
        return ["basis", canon_maps(x, ctx), [repr(complex(c)) for c in x.coeffs]]
    if isinstance(x, BaseQPDGate):
        return ["qpdgate", ctx.canon_op(x), [repr(complex(c)) for c in x.basis.coeffs]]
    if isinstance(x, Instruction):
        return ["inst", ctx.canon_op(x)]
    if isinstance(x, SamplerResult):
        return ["sr", [sorted((int(k), float(v)) for k, v in qd.items()) for qd in x.quasi_dists], repr(x.metadata)]
    if isinstance(x, PrimitiveResult):
        return ["prim", [[[nm, v.array.tolist(), v.num_bits] for nm, v in sorted(pub.data.items())] for pub in x]]
    if isinstance(x, dict):
        return ["dict", [[tagged(k), snap(v, ctx)] for k, v in x.items()]]
    if isinstance(x, (list, tuple)):
        return [type(x).__name__, [snap(v, ctx) for v in x]]
    if isinstance(x, (OptimizationParameters, DeviceConstraints, OptimizationSettings, CommutingObservableGroup)):
        return ["dc", repr(x)]
    if isinstance(x, np.ndarray):
        return ["nd", x.tolist()]
    return ["v", repr(x)]


def first_diff(a, b, path=""):
    if type(a) is not type(b):
        return f"{path}: {a!r} -> {b!r}"[:200]
    if isinstance(a, list):
        if len(a) != len(b):
            return f"{path}: length {len(a)} -> {len(b)}"
        for i, (x, y) in enumerate(zip(a, b)):
            d = first_diff(x, y, f"{path}[{i}]")
            if d:
                return d
        return None
    if isinstance(a, dict):
        for k in a:
            d = first_diff(a[k], b.get(k), f"{path}.{k}")
            if d:
                return d
        return None
    return None if a == b else f"{path}: {a!r} -> {b!r}"


def observe(f, args, kwargs=None, state=None):
    """Call f(*args, **kwargs) with deep snapshots of every argument before/after.
    state: optional function () -> JSON giving the observed state of a mutable argument afterwards."""
    kwargs = kwargs or {}
    ctx = CircCtx()
    allargs = list(args) + [kwargs[k] for k in sorted(kwargs)]
    before = [snap(a, ctx) for a in allargs]
    r = call_canon(f, *args, **kwargs)
    after = [snap(a, ctx) for a in allargs]
    d = first_diff(before, after, "args")
    impl = dict(outcome=r[0], detail=None if r[0] == "ok" else r[1], unchanged=(d is None), changed=d)
    if state is not None:
        impl["final"] = state()
    return impl


# --------------------------------------------------------------------------------------
# Coq literals
# --------------------------------------------------------------------------------------

def c_out(o):
    return Raw({"ok": "(Ok tt)", "refused": "Refused", "crashed": "Crashed"}[o])


def c_budget(b):
    k = b[0]
    if k == "num":
        return Raw(f"(BNum (Qmake ({b[1][0]})%Z ({b[1][1]})%positive))")
    return Raw({"nan": "BNaN", "inf": "BInf", "-inf": "BNegInf"}[k])


def c_optbudget(b):
    return Raw("None") if b is None else Raw(f"(Some {c_budget(b).s})")


def c_z(v):
    return Raw(f"({int(v)})%Z")


def c_optz(v):
    return Raw("None") if v is None else Raw(f"(Some ({int(v)})%Z)")


def c_optn(v):
    return Raw("None") if v is None else Raw(f"(Some {int(v)})")


def c_desc(d):
    return Raw("(G " + " ".join("true" if x else "false" for x in d) + ")")


def c_ginst(g):
    k = {"barrier": "KBarrier", "qpd2": "KQpd2"}.get(g["kind"]) or f"(KOp {c_desc(g['desc']).s})"
    return Raw(f"(mkG {k} {coq(list(g['qs']))})")


def c_labels(ls):
    return [c_optn(l) for l in ls]


def budget_value(b):
    """budget JSON -> Python number; optional third element: float | npfloat | npint | fraction"""
    k = b[0]
    if k == "num":
        fr = Fraction(b[1][0], b[1][1])
        ty = b[2] if len(b) > 2 else None
        if ty == "npfloat":
            return np.float64(float(fr))
        if ty == "npint":
            return np.int64(int(fr))
        if ty == "fraction":
            return fr
        return int(fr) if fr.denominator == 1 and ty is None else float(fr)
    return {"nan": float("nan"), "inf": float("inf"), "-inf": float("-inf")}[k]


def num(n, d=1, as_float=False):
    fr = Fraction(n, d)
    out = ["num", [fr.numerator, fr.denominator]]
    if as_float:
        out.append("float" if as_float is True else as_float)
    return out


def b_lt(b, k):
    if b[0] == "num":
        return Fraction(b[1][0], b[1][1]) < k
    return b[0] == "-inf"


def b_ge(b, k):
    if b[0] == "num":
        return Fraction(b[1][0], b[1][1]) >= k
    return b[0] == "inf"


# --------------------------------------------------------------------------------------
# circuits from item lists
# --------------------------------------------------------------------------------------
G1 = {"h": HGate, "x": XGate, "s": SGate, "t": TGate, "sx": SXGate, "z": ZGate}
G2 = {"cx": CXGate, "cz": CZGate, "swap": SwapGate, "ecr": ECRGate, "ch": CHGate, "iswap": iSwapGate}
P2 = {"rzz": RZZGate, "rxx": RXXGate, "ryy": RYYGate, "crx": CRXGate, "cry": CRYGate, "crz": CRZGate, "cp": CPhaseGate}
G3 = {"ccx": CCXGate, "cswap": CSwapGate}
from qiskit.circuit.library import C3XGate  # noqa: E402
def _param_gates_from_source():
    """the set literal `param_gates` inside _theta_from_instruction, read from the implementation's source, so that a
    legitimately added parameter gate does not make the abstraction disagree"""
    import ast
    import inspect
    import textwrap
    try:
        tree = ast.parse(textwrap.dedent(inspect.getsource(_theta_from_instruction)))
        for node in ast.walk(tree):
            if isinstance(node, ast.Assign) and any(isinstance(t, ast.Name) and t.id == "param_gates" for t in node.targets):
                return set(ast.literal_eval(node.value))
    except Exception:  # noqa: BLE001
        pass
    return set(P2)


PARAM_GATES = _param_gates_from_source()


def inst2():
    """a two-qubit Instruction that is not a Gate (unsupported by QPDBasis.from_instruction)"""
    q = QuantumCircuit(2, name="blk")
    q.cx(0, 1)
    q.reset(0)
    return q.to_instruction()


_PCOUNT = [0]


def fresh_param():
    _PCOUNT[0] += 1
    return Parameter(f"th{_PCOUNT[0]}")


def make_op(it):
    k = it[0]
    if k == "g1":
        return G1[it[1]]()
    if k == "g2":
        return G2[it[1]]()
    if k == "p2":
        if it[2] == "expr":
            return P2[it[1]](2 * fresh_param() + 1)          # an unbound ParameterExpression
        return P2[it[1]](fresh_param() if it[2] is None else it[2][0] / it[2][1])
    if k == "u2":  # unregistered two-qubit gate (KAK path)
        return RZXGate(fresh_param() if it[1] is None else it[1][0] / it[1][1])
    if k == "g3":
        return G3[it[1]]()
    if k == "inst2":
        return inst2()
    if k == "g4":
        return C3XGate()
    if k == "inst3":
        q = QuantumCircuit(3, name="blk3")
        q.ccx(0, 1, 2)
        q.reset(1)
        return q.to_instruction()
    if k == "barrier":
        return Barrier(len(it[-1]))
    if k == "qpd2":
        base = {"cx": CXGate(), "cz": CZGate(), "rzz": RZZGate(0.5), "move": Move()}[it[1]]
        return TwoQubitQPDGate(QPDBasis.from_instruction(base), label=it[2])
    if k == "measure":
        return Measure()
    if k == "reset":
        return Reset()
    raise ValueError(it)


def rand_layout(rng, nq):
    """None (one register) or a split of the nq qubits into registers and loose qubits, in order"""
    if nq < 2 or rng.integers(0, 2):
        return None
    out, left, r = [], nq, 0
    while left > 0:
        n = int(rng.integers(1, left + 1))
        if n == nq:
            n = nq - 1
        out.append(["loose", n] if rng.integers(0, 3) == 0 else ["reg", n])
        left -= n
    return out


def build_circuit(nq, items, clbits=None, layout=None):
    if layout is None:
        qc = QuantumCircuit(nq)
    else:
        qc = QuantumCircuit()
        for j, (k, n) in enumerate(layout):
            if k == "loose":
                qc.add_bits([Qubit() for _ in range(n)])
            else:
                qc.add_register(QuantumRegister(n, f"r{j}"))
        assert qc.num_qubits == nq
    if clbits == "creg":
        qc.add_register(ClassicalRegister(1, "c"))
    elif clbits == "creg2":
        qc.add_register(ClassicalRegister(2, "c"))
    elif clbits == "loose":
        qc.add_bits([Clbit()])
    elif clbits == "empty_creg":
        qc.add_register(ClassicalRegister(0, "e"))
    for it in items:
        qc.append(make_op(it), it[-1])
    return qc


def gate_desc(op):
    registered = op.name in _qpdbasis_from_instruction_funcs
    param = op.name in PARAM_GATES
    bound = True
    if param:
        try:
            float(op.params[0])
        except TypeError:
            bound = False
    gate2 = isinstance(op, Gate) and op.num_qubits == 2
    matrix = True
    if gate2 and not registered:
        try:
            op.to_matrix()
        except Exception:  # noqa: BLE001
            matrix = False
    return [registered, param, bound, gate2, matrix]


def desc_refuses(d):
    """plain restatement of the documented from_instruction refusals: unbound parameters / unsupported"""
    registered, param, bound, gate2, matrix = d
    if registered:
        return param and not bound
    if gate2:
        return not matrix
    return True


def abs_insts(qc):
    out = []
    for inst in qc.data:
        op = inst.operation
        qs = [qc.find_bit(q).index for q in inst.qubits]
        if op.name == "barrier":
            out.append(dict(kind="barrier", qs=qs))
        elif isinstance(op, TwoQubitQPDGate):
            out.append(dict(kind="qpd2", qs=qs))
        else:
            out.append(dict(kind="op", desc=gate_desc(op), qs=qs))
    return out


def intern_labels(labels):
    it = Interner()
    return [None if l is None else it(l) for l in labels]


LABEL_POOL = ["A", "B", "C", 0, 1, (1, "x")]


def rand_labels(rng, nq, nl=None):
    nl = nl or int(rng.integers(1, min(3, nq) + 1))
    pool = [LABEL_POOL[i] for i in rng.permutation(len(LABEL_POOL))[:nl]]
    labels = [pool[int(rng.integers(0, nl))] for _ in range(nq)]
    return labels


def rand_items(rng, nq, labels=None, n=None, allow_wide_local=True, preplaced=False):
    """random instruction list that is VALID for partitioning along `labels` (None: anything supported):
    supported 1q/2q gates anywhere, barriers anywhere, 3-qubit and unsupported 2-qubit operations only
    inside one partition."""
    n = int(rng.integers(1, 7)) if n is None else n
    items = []
    same = (lambda qs: len({labels[q] for q in qs}) == 1) if labels is not None else (lambda qs: False)
    for _ in range(n):
        r = int(rng.integers(0, 14))
        if r == 12 and nq >= 2 and preplaced:
            a, b = (int(x) for x in rng.permutation(nq)[:2])
            items.append(["qpd2", pick(rng, ["cx", "cz", "rzz", "move"]), pick(rng, [None, "pre", "cut_cx"]), [a, b]])
            continue
        if r == 13 and nq >= 4 and allow_wide_local:
            qs = [int(x) for x in rng.permutation(nq)[: int(pick(rng, [3, 4]))]]
            if same(qs):
                items.append(["g4", qs] if len(qs) == 4 else ["inst3", qs])
            else:
                items.append(["g1", "x", [qs[0]]])
            continue
        if r >= 12:
            r = int(rng.integers(0, 12))
        if r < 3 or nq == 1:
            items.append(["g1", list(G1)[int(rng.integers(0, len(G1)))], [int(rng.integers(0, nq))]])
            continue
        a, b = (int(x) for x in rng.permutation(nq)[:2])
        if r < 6:
            items.append(["g2", list(G2)[int(rng.integers(0, len(G2)))], [a, b]])
        elif r < 8:
            items.append(["p2", list(P2)[int(rng.integers(0, len(P2)))], [int(rng.integers(1, 8)), 8], [a, b]])
        elif r == 8:
            items.append(["u2", [int(rng.integers(1, 8)), 8], [a, b]])
        elif r == 9:
            qs = [int(x) for x in rng.permutation(nq)[: int(rng.integers(1, nq + 1))]]
            items.append(["barrier", qs])
        elif r == 10 and nq >= 3 and allow_wide_local:
            qs = [int(x) for x in rng.permutation(nq)[:3]]
            if same(qs):
                items.append(["g3", "ccx" if rng.integers(0, 2) else "cswap", qs])
            else:
                items.append(["g1", "h", [qs[0]]])
        else:
            if same([a, b]) and allow_wide_local:
                items.append(["inst2", [a, b]] if rng.integers(0, 2) else ["p2", "rzz", None, [a, b]])
            else:
                items.append(["g2", "cx", [a, b]])
    return items


def spanning_pair(rng, labels, k=2):
    """k distinct qubits spanning more than one label, or None"""
    nq = len(labels)
    for _ in range(30):
        if nq < k:
            return None
        qs = [int(x) for x in rng.permutation(nq)[:k]]
        if len({labels[q] for q in qs}) > 1:
            return qs
    return None


def offending_item(rng, cls, qs):
    if cls == "wide_gate":
        if len(qs) == 4:
            return ["g4", qs]
        return pick(rng, [["g3", "ccx", qs], ["g3", "cswap", qs], ["inst3", qs]])
    if cls == "unbound":
        return (["p2", list(P2)[int(rng.integers(0, len(P2)))], pick(rng, [None, None, "expr"]), qs]
                if rng.integers(0, 3) else ["u2", None, qs])
    if cls == "unsupported":
        return ["inst2", qs]
    raise ValueError(cls)


def insert_random(rng, items, it):
    pos = int(rng.integers(0, len(items) + 1))
    return items[:pos] + [it] + items[pos:], pos


KINDS = {}


def kind(name):
    def deco(cls):
        KINDS[name] = cls()
        KINDS[name].name = name
        return cls
    return deco


# --------------------------------------------------------------------------------------
# numeric limits
# --------------------------------------------------------------------------------------
_ULP = 2 ** 53
BAD_LT1 = [num(0), num(-3), num(1, 2, True), num(0, 1, True), num(-1, 4, True), num(255, 256, True), ["-inf"],
           num(_ULP - 1, _ULP, True),                                  # 1 - 2^-53, the largest double below 1
           ["num", [Fraction(0.999).numerator, Fraction(0.999).denominator], "float"],
           ["num", [Fraction(0.9999999).numerator, Fraction(0.9999999).denominator], "float"],
           num(1, 2, "npfloat"), num(0, 1, "npint"), num(3, 4, "fraction"), num(_ULP - 1, _ULP, "npfloat")]
GOOD_GE1 = [num(1), num(2), num(7), num(15, 2, True), num(1, 1, True), num(40), ["inf"],
            num(1, 1, "npfloat"), num(3, 1, "npint"), num(5, 4, "fraction"), num(_ULP + 2, _ULP, True)]
BAD_LT0 = [num(-1), num(-7), num(-1, 2, True), ["-inf"], num(-1, _ULP, True), num(-1, 1, "npint")]


def pick(rng, l):
    return l[int(rng.integers(0, len(l)))]


def small_bases(rng):
    ops = [CXGate(), CZGate(), RZZGate(0.5), Move()]
    return [QPDBasis.from_instruction(ops[int(rng.integers(0, len(ops)))]) for _ in range(int(rng.integers(1, 3)))]


@kind("weights")
class KWeights:
    checker = "chk_weights"

    def run(self, desc):
        bases = [QPDBasis.from_instruction({"cx": CXGate(), "cz": CZGate(), "rzz": RZZGate(0.5), "move": Move()}[b])
                 for b in desc["bases"]]
        n = budget_value(desc["n"])
        if desc["private"]:
            probs = [np.asarray(b.probabilities) for b in bases]
            impl = observe(_generate_qpd_weights, [probs, n])
        else:
            impl = observe(generate_qpd_weights, [bases, n])
        return dict(n=desc["n"]), impl

    def emit(self, a, impl):
        return (c_budget(a["n"]), c_out(impl["outcome"]), impl["unchanged"])

    def classes(self, a):
        if a["n"][0] == "nan":
            return ["budget_nan"]
        return [] if b_ge(a["n"], 1) else ["budget_lt1"]

    def gen(self, rng, q):
        for _ in range(q(30)):
            r = int(rng.integers(0, 3))
            n = pick(rng, BAD_LT1) if r == 0 else (["nan"] if r == 1 else pick(rng, GOOD_GE1))
            bases = [pick(rng, ["cx", "cz", "rzz", "move"]) for _ in range(int(rng.integers(1, 3)))]
            yield ("budget_lt1" if r == 0 else "budget_nan" if r == 1 else "valid",
                   dict(n=n, bases=bases, private=bool(rng.integers(0, 2))))


@kind("device")
class KDevice:
    checker = "chk_device"

    def run(self, desc):
        return dict(w=desc["w"]), observe(DeviceConstraints, [budget_value(desc["w"])])

    def emit(self, a, impl):
        return (c_budget(a["w"]), c_out(impl["outcome"]), impl["unchanged"])

    def classes(self, a):
        return ["width_lt1"] if b_lt(a["w"], 1) else []

    def gen(self, rng, q):
        for _ in range(q(16)):
            r = int(rng.integers(0, 5))
            w = pick(rng, BAD_LT1) if r < 2 else (["nan"] if r == 2 else pick(rng, GOOD_GE1))
            yield ("width_lt1" if r < 2 else "undoc:nan" if r == 2 else "valid", dict(w=w))


@kind("settings")
class KSettings:
    checker = "chk_settings"

    def run(self, desc):
        kw = dict(max_gamma=budget_value(desc["g"]),
                  max_backjumps=None if desc["bj"] is None else budget_value(desc["bj"]))
        return dict(g=desc["g"], bj=desc["bj"]), observe(OptimizationSettings, [], kw)

    def emit(self, a, impl):
        return (c_budget(a["g"]), c_optbudget(a["bj"]), c_out(impl["outcome"]), impl["unchanged"])

    def classes(self, a):
        out = []
        if b_lt(a["g"], 1):
            out.append("gamma_lt1")
        if a["bj"] is not None and b_lt(a["bj"], 0):
            out.append("backjumps_negative")
        return out

    def gen(self, rng, q):
        for _ in range(q(24)):
            r = int(rng.integers(0, 4))
            g = pick(rng, BAD_LT1) if r == 0 else pick(rng, GOOD_GE1 + [["nan"]])
            bj = pick(rng, BAD_LT0) if r == 1 else pick(rng, [None, num(0), num(5), num(10000), num(0, 1, True)])
            yield ("gamma_lt1" if r == 0 else "backjumps_negative" if r == 1 else "valid", dict(g=g, bj=bj))


# --------------------------------------------------------------------------------------
# QPDBasis.from_instruction / _theta_from_instruction
# --------------------------------------------------------------------------------------
def fi_items(rng):
    """(cls, item)"""
    r = int(rng.integers(0, 9))
    if r == 0:
        return "valid", ["g2", pick(rng, list(G2)), [0, 1]]
    if r == 1:
        return "valid", ["p2", pick(rng, list(P2)), [int(rng.integers(1, 16)), 8], [0, 1]]
    if r == 2:
        return "valid", ["u2", [int(rng.integers(1, 16)), 8], [0, 1]]
    if r == 3:
        return "unbound", ["p2", pick(rng, list(P2)), None, [0, 1]]
    if r == 4:
        return "unbound", ["u2", None, [0, 1]]
    if r == 5:
        return "unsupported", ["g1", pick(rng, list(G1)), [0]]
    if r == 6:
        return "unsupported", ["g3", pick(rng, list(G3)), [0, 1, 2]]
    if r == 7:
        return "unsupported", pick(rng, [["measure", [0]], ["reset", [0]], ["barrier", [0, 1]], ["inst2", [0, 1]]])
    return "unsupported", ["qpd2", pick(rng, ["cx", "rzz"]), "lbl", [0, 1]]


@kind("from_instruction")
class KFromInstruction:
    checker = "chk_from_instruction"

    def run(self, desc):
        op = make_op(desc["item"])
        a = dict(desc=gate_desc(op))
        f = TwoQubitQPDGate.from_instruction if desc.get("via_gate") else QPDBasis.from_instruction
        return a, observe(f, [op])

    def emit(self, a, impl):
        return (c_desc(a["desc"]), c_out(impl["outcome"]), impl["unchanged"])

    def classes(self, a):
        return ["unbound_or_unsupported"] if desc_refuses(a["desc"]) else []

    def gen(self, rng, q):
        for _ in range(q(50)):
            cls, it = fi_items(rng)
            yield cls, dict(item=it, via_gate=bool(rng.integers(0, 2)))


@kind("theta")
class KTheta:
    checker = "chk_theta"

    def run(self, desc):
        op = make_op(desc["item"])
        return dict(bound=gate_desc(op)[2]), observe(_theta_from_instruction, [op])

    def emit(self, a, impl):
        return (a["bound"], c_out(impl["outcome"]), impl["unchanged"])

    def classes(self, a):
        return [] if a["bound"] else ["unbound"]

    def gen(self, rng, q):
        for _ in range(q(14)):
            b = bool(rng.integers(0, 2))
            yield ("valid" if b else "unbound",
                   dict(item=["p2", pick(rng, list(P2)), [int(rng.integers(1, 16)), 8] if b else None, [0, 1]]))


# --------------------------------------------------------------------------------------
# QPDBasis, coeffs setter, QPD gates
# --------------------------------------------------------------------------------------
def maps_of(arities):
    pool = [[], [XGate()], [HGate(), QPDMeasure()], [Reset()]]
    return [tuple(list(pool[(i + j) % 4]) for j in range(a)) for i, a in enumerate(arities)]


def basis_of(nq, nmaps):
    return QPDBasis(maps_of([nq] * nmaps), [1.0 / nmaps] * nmaps)


@kind("qpdbasis")
class KBasis:
    checker = "chk_qpdbasis"

    def run(self, desc):
        maps = maps_of(desc["ar"])
        co = [0.5] * desc["nco"]
        return dict(ar=[len(m) for m in maps], nco=len(co)), observe(QPDBasis, [maps, co])

    def emit(self, a, impl):
        return (a["ar"], a["nco"], c_out(impl["outcome"]), impl["unchanged"])

    def classes(self, a):
        ar = a["ar"]
        out = []
        if len(ar) == 0:
            out.append("maps_empty")
        else:
            if ar[0] > 2:
                out.append("maps_wide")
            if any(x != ar[0] for x in ar):
                out.append("maps_ragged")
        if a["nco"] != len(ar):
            out.append("coeffs_count")
        return out

    def gen(self, rng, q):
        for _ in range(q(40)):
            r = int(rng.integers(0, 6))
            n = int(rng.integers(1, 7))
            a0 = int(rng.integers(0, 3))
            ar = [a0] * n
            nco = n
            cls = "valid"
            if r == 0:
                ar, nco, cls = [], int(rng.integers(0, 2)), "maps_empty"
            elif r == 1:
                ar, cls = [int(rng.integers(3, 5))] * n, "maps_wide"
            elif r == 2 and n >= 2:
                k = int(rng.integers(1, n))
                ar[k] = (a0 + int(rng.integers(1, 3))) % 3
                cls = "maps_ragged"
            elif r == 3:
                nco, cls = n + int(pick(rng, [-1, 1, 2])), "coeffs_count"
            yield cls, dict(ar=ar, nco=nco)


@kind("set_coeffs")
class KSetCoeffs:
    checker = "chk_set_coeffs"

    def run(self, desc):
        b = basis_of(desc["nq"], desc["nmaps"])
        co = [0.25] * desc["nco"]

        def f(basis, coeffs):
            basis.coeffs = coeffs
        return dict(nmaps=len(b.maps), nco=len(co)), observe(f, [b, co])

    def emit(self, a, impl):
        # a successful assignment legitimately changes the basis
        return (a["nmaps"], a["nco"], c_out(impl["outcome"]), impl["unchanged"])

    def classes(self, a):
        return ["coeffs_count"] if a["nco"] != a["nmaps"] else []

    def gen(self, rng, q):
        for _ in range(q(16)):
            n = int(rng.integers(1, 6))
            bad = bool(rng.integers(0, 2))
            yield ("coeffs_count" if bad else "valid",
                   dict(nq=int(rng.integers(1, 3)), nmaps=n, nco=max(0, n + int(pick(rng, [-1, 1, 3]))) if bad else n))


def rand_bid(rng, nmaps, bad):
    if bad:
        return int(pick(rng, [nmaps, nmaps + 1, nmaps + 7, -1, -nmaps]))
    return None if rng.integers(0, 4) == 0 else int(rng.integers(0, nmaps))


@kind("set_basis_id")
class KSetBid:
    checker = "chk_set_basis_id"

    def run(self, desc):
        b = basis_of(desc["nq"], desc["nmaps"])
        g = TwoQubitQPDGate(b, basis_id=desc["bid0"]) if desc["nq"] == 2 else SingleQubitQPDGate(b, 0, basis_id=desc["bid0"])

        def f(gate, bid):
            gate.basis_id = bid
        return dict(nmaps=len(b.maps), bid=desc["bid"]), observe(f, [g, desc["bid"]])

    def emit(self, a, impl):
        return (a["nmaps"], c_optz(a["bid"]), c_out(impl["outcome"]), impl["unchanged"])

    def classes(self, a):
        return ["map_index_range"] if a["bid"] is not None and not (0 <= a["bid"] < a["nmaps"]) else []

    def gen(self, rng, q):
        for _ in range(q(24)):
            n = int(rng.integers(1, 7))
            bad = bool(rng.integers(0, 2))
            yield ("map_index_range" if bad else "valid",
                   dict(nq=int(rng.integers(1, 3)), nmaps=n, bid0=rand_bid(rng, n, False), bid=rand_bid(rng, n, bad)))


@kind("q1gate")
class KQ1:
    checker = "chk_q1gate"

    def run(self, desc):
        b = basis_of(desc["nq"], desc["nmaps"])
        a = dict(nq=b.num_qubits, nmaps=len(b.maps), qid=desc["qid"], bid=desc["bid"])
        return a, observe(SingleQubitQPDGate, [b, desc["qid"]], dict(basis_id=desc["bid"]))

    def emit(self, a, impl):
        return (a["nq"], a["nmaps"], c_z(a["qid"]), c_optz(a["bid"]), c_out(impl["outcome"]), impl["unchanged"])

    def classes(self, a):
        out = []
        if a["qid"] >= a["nq"]:
            out.append("half_index_too_large")
        if a["bid"] is not None and not (0 <= a["bid"] < a["nmaps"]):
            out.append("map_index_range")
        return out

    def gen(self, rng, q):
        for _ in range(q(36)):
            nq = int(rng.integers(1, 3))
            n = int(rng.integers(1, 7))
            r = int(rng.integers(0, 4))
            qid = int(rng.integers(0, nq))
            bid = rand_bid(rng, n, False)
            cls = "valid"
            if r == 0:
                qid, cls = nq + int(rng.integers(0, 4)), "half_index_too_large"
            elif r == 1:
                bid, cls = rand_bid(rng, n, True), "map_index_range"
            elif r == 2 and rng.integers(0, 3) == 0:
                qid, cls = -1, "undoc:negative_half"
            yield cls, dict(nq=nq, nmaps=n, qid=qid, bid=bid)


@kind("q2gate")
class KQ2:
    checker = "chk_q2gate"

    def run(self, desc):
        b = basis_of(desc["nq"], desc["nmaps"])
        a = dict(nq=b.num_qubits, nmaps=len(b.maps), bid=desc["bid"])
        return a, observe(TwoQubitQPDGate, [b], dict(basis_id=desc["bid"]))

    def emit(self, a, impl):
        return (a["nq"], a["nmaps"], c_optz(a["bid"]), c_out(impl["outcome"]), impl["unchanged"])

    def classes(self, a):
        out = []
        if a["nq"] != 2:
            out.append("basis_not_two_qubit")
        if a["bid"] is not None and not (0 <= a["bid"] < a["nmaps"]):
            out.append("map_index_range")
        return out

    def gen(self, rng, q):
        for _ in range(q(24)):
            r = int(rng.integers(0, 3))
            n = int(rng.integers(1, 7))
            nq = 2 if r else int(pick(rng, [0, 1]))
            bad = r == 1
            yield ("basis_not_two_qubit" if r == 0 else "map_index_range" if bad else "valid",
                   dict(nq=nq, nmaps=n, bid=rand_bid(rng, n, bad)))


# --------------------------------------------------------------------------------------
# partition_circuit_qubits / cut_gates / partition_problem / separate_circuit / find_cuts
# --------------------------------------------------------------------------------------
def spans(labels, qs):
    return len({labels[q] for q in qs})


def pcq_classes(labels, insts, nq):
    """documented refusals of partitioning along `labels` (plain restatement)"""
    out = []
    if len(labels) != nq:
        return ["label_count"]
    for g in insts:
        if g["kind"] == "barrier" or len(g["qs"]) <= 1 or spans(labels, g["qs"]) == 1:
            continue
        if len(g["qs"]) > 2:
            out.append("wide_gate_spanning")
        elif g["kind"] == "op" and desc_refuses(g["desc"]):
            out.append("unbound_or_unsupported_spanning")
    return out


def gen_partition_case(rng, classes):
    """common generator for pcq / partition_problem: (cls, nq, items, labels)"""
    cls = pick(rng, classes)
    nq = int(rng.integers(1, 7))
    labels = rand_labels(rng, nq)
    items = rand_items(rng, nq, labels, preplaced=True)
    if cls in ("wide_gate", "unbound", "unsupported"):
        width = int(pick(rng, [3, 3, 4])) if cls == "wide_gate" else 2
        qs = spanning_pair(rng, labels, width)
        if qs is None:
            nq = int(rng.integers(width, 7))
            labels = rand_labels(rng, nq, 2)
            labels[0], labels[1] = LABEL_POOL[0], LABEL_POOL[1]
            items = rand_items(rng, nq, labels, preplaced=True)
            qs = spanning_pair(rng, labels, width)
        items, _ = insert_random(rng, items, offending_item(rng, cls, qs))
    elif cls == "label_count":
        d = int(pick(rng, [-1, 1, 2]))
        labels = labels[:d] if d < 0 else labels + [labels[0]] * d
    return cls, nq, items, labels


@kind("pcq")
class KPcq:
    checker = "chk_pcq"
    finding = "F12"

    def run(self, desc):
        qc = build_circuit(desc["nq"], desc["items"], layout=desc.get("layout"))
        labels = [untag(t) for t in desc["labels"]]
        a = dict(nq=qc.num_qubits, labels=intern_labels(labels), insts=abs_insts(qc), inplace=desc["inplace"])
        impl = observe(partition_circuit_qubits, [qc, labels], dict(inplace=desc["inplace"]),
                       state=lambda: [isinstance(i.operation, TwoQubitQPDGate) for i in qc.data])
        return a, impl

    def emit(self, a, impl):
        i = Raw(f"(mkPcq {a['nq']} {coq(c_labels(a['labels']))} {coq([c_ginst(g) for g in a['insts']])})")
        return (i, a["inplace"], c_out(impl["outcome"]), impl["unchanged"], [bool(b) for b in impl["final"]])

    def classes(self, a):
        return pcq_classes(a["labels"], a["insts"], a["nq"])

    def gen(self, rng, q):
        for _ in range(q(110)):
            cls, nq, items, labels = gen_partition_case(rng, ["valid", "valid", "wide_gate", "wide_gate", "unbound", "unsupported", "label_count"])
            yield cls, dict(nq=nq, items=items, labels=[tagged(l) for l in labels], inplace=bool(rng.integers(0, 2)),
                            layout=rand_layout(rng, nq))


@kind("cut_gates")
class KCutGates:
    checker = "chk_cut_gates"
    finding = "F13"

    def run(self, desc):
        qc = build_circuit(desc["nq"], desc["items"], desc["clbits"], layout=desc.get("layout"))
        before = list(qc.data)
        a = dict(ncregs=len(qc.cregs), nclbits=qc.num_clbits, ops=[gate_desc(i.operation) for i in qc.data],
                 ids=list(desc["ids"]), inplace=desc["inplace"])
        impl = observe(cut_gates, [qc, list(desc["ids"])], dict(inplace=desc["inplace"]),
                       state=lambda: [qc.data[k].operation is not before[k].operation and qc.data[k] != before[k]
                                      for k in range(len(before))])
        return a, impl

    def emit(self, a, impl):
        i = Raw(f"(mkCg {a['ncregs']} {a['nclbits']} {coq([c_desc(d) for d in a['ops']])} {coq(a['ids'])})")
        return (i, a["inplace"], c_out(impl["outcome"]), impl["unchanged"], [bool(b) for b in impl["final"]])

    def classes(self, a):
        out = []
        if a["ncregs"] != 0 or a["nclbits"] != 0:
            out.append("classical_bits")
        if all(k < len(a["ops"]) for k in a["ids"]) and any(desc_refuses(a["ops"][k]) for k in a["ids"]):
            out.append("unbound_or_unsupported")
        return out

    def gen(self, rng, q):
        for _ in range(q(90)):
            cls = pick(rng, ["valid", "valid", "classical_bits", "unbound", "unsupported", "unsupported", "undoc:index"])
            nq = int(rng.integers(2, 6))
            items = rand_items(rng, nq, None, n=int(rng.integers(2, 8)))
            good = [k for k, it in enumerate(items) if it[0] in ("g2", "u2") or (it[0] == "p2" and isinstance(it[2], list))]
            if not good:
                items.append(["g2", "cx", [0, 1]])
                good = [len(items) - 1]
            ids = [int(k) for k in rng.permutation(good)[: int(rng.integers(1, len(good) + 1))]]
            clbits = None
            if cls == "classical_bits":
                clbits = pick(rng, ["creg", "loose", "empty_creg", "creg2"])
            elif cls in ("unbound", "unsupported"):
                if cls == "unbound":
                    it = offending_item(rng, "unbound", [0, 1])
                else:
                    it = pick(rng, [["g1", "h", [0]], ["inst2", [0, 1]], ["barrier", [0, 1]], ["qpd2", "cx", "l", [0, 1]]] +
                              ([["g3", "ccx", [0, 1, 2]]] if nq >= 3 else []))
                items, pos = insert_random(rng, items, it)
                ids = [k + 1 if k >= pos else k for k in ids]
                ids.insert(int(rng.integers(0, len(ids) + 1)), pos)
            elif cls == "undoc:index":
                ids.insert(int(rng.integers(0, len(ids) + 1)), len(items) + int(rng.integers(0, 3)))
            if cls == "valid" and rng.integers(0, 4) == 0:
                ids.insert(int(rng.integers(0, len(ids) + 1)), int(pick(rng, ids)))     # duplicate id (replacements are deferred)
            yield cls, dict(nq=nq, items=items, ids=ids, clbits=clbits, inplace=bool(rng.integers(0, 2)),
                            layout=rand_layout(rng, nq))


LET = "IXYZ"


def rand_obs(rng, nq, k=None, identity_on=()):
    k = int(rng.integers(1, 4)) if k is None else k
    out = []
    for _ in range(k):
        s = [LET[int(rng.integers(0, 4))] for _ in range(nq)]
        for q in identity_on:
            s[q] = "I"
        out.append([0, "".join(reversed(s))])
    return out


def make_obs(obs, aslist=False):
    ps = []
    for ph, lab in obs:
        p = Pauli(lab)
        p.phase = ph
        ps.append(p)
    return ps if aslist else PauliList(ps)


@kind("partition_problem")
class KPartitionProblem:
    checker = "chk_partition_problem"

    def run(self, desc):
        qc = build_circuit(desc["nq"], desc["items"], desc["clbits"], layout=desc.get("layout"))
        labels = None if desc["labels"] is None else [untag(t) for t in desc["labels"]]
        obs = None if desc["obs"] is None else make_obs(desc["obs"], desc["aslist"])
        a = dict(nq=qc.num_qubits, labels=None if labels is None else intern_labels(labels),
                 obs=None if obs is None else [[len(p), int(p.phase)] for p in obs],
                 ncregs=len(qc.cregs), nclbits=qc.num_clbits, insts=abs_insts(qc),
                 support=[] if obs is None else [[k for k in range(len(p)) if p.x[k] or p.z[k]] for p in obs])
        return a, observe(partition_problem, [qc, labels, obs])

    def emit(self, a, impl):
        labels = "None" if a["labels"] is None else f"(Some {coq(c_labels(a['labels']))})"
        obs = "None" if a["obs"] is None else f"(Some {coq([tuple(o) for o in a['obs']])})"
        i = Raw(f"(mkPp {a['nq']} {labels} {obs} {a['ncregs']} {a['nclbits']} {coq([c_ginst(g) for g in a['insts']])} "
                f"{coq([list(x) for x in a['support']])})")
        return (i, c_out(impl["outcome"]), impl["unchanged"])

    def classes(self, a):
        out = []
        if a["labels"] is not None and len(a["labels"]) != a["nq"]:
            out.append("label_count")
        if a["obs"] is not None:
            if any(o[0] != a["nq"] for o in a["obs"]):
                out.append("observable_size")
            if any(o[1] != 0 for o in a["obs"]):
                out.append("observable_phase")
        if a["ncregs"] != 0 or a["nclbits"] != 0:
            out.append("classical_bits")
        if a["labels"] is not None and len(a["labels"]) == a["nq"]:
            out += pcq_classes(a["labels"], a["insts"], a["nq"])
            if any(a["labels"][q] is None for g in a["insts"] for q in g["qs"]):
                out.append("none_label_not_idle")
        # idle group: an observable acts on a qubit labelled None / (automatic labels) on an untouched qubit
        sizes_ok = a["obs"] is not None and all(o[0] == a["nq"] for o in a["obs"])
        if sizes_ok and (a["labels"] is None or len(a["labels"]) == a["nq"]):
            used = {q for g in a["insts"] for q in g["qs"]}
            idle = [q for q in range(a["nq"]) if (q not in used if a["labels"] is None else a["labels"][q] is None)]
            if any(q in idle for sup in a["support"] for q in sup):
                out.append("observable_on_idle_qubit")
        return out

    def gen(self, rng, q):
        C = ["valid", "valid", "valid_auto", "valid_idle", "label_count", "observable_size", "observable_phase", "observable_phase",
             "classical_bits", "wide_gate", "unbound", "unsupported", "none_label_not_idle", "idle_explicit", "idle_auto",
             "auto_plus_offence", "two_offences"]
        for _ in range(q(150)):
            cls0 = pick(rng, C)
            cls, nq, items, labels = gen_partition_case(rng, [cls0 if cls0 in ("wide_gate", "unbound", "unsupported", "label_count") else "valid"])
            cls = cls0
            obs = rand_obs(rng, nq, int(rng.integers(1, 5))) if rng.integers(0, 6) else None
            aslist = False
            clbits = None
            if cls in ("valid_auto", "auto_plus_offence", "idle_auto"):
                # automatic labels (connected components; untouched qubits get None)
                items = [it for it in items if it[0] != "inst2" and not (it[0] == "p2" and not isinstance(it[2], list))]
                labels = None
                used = {qq for it in items for qq in it[-1]}
                idle = [k for k in range(nq) if k not in used]
                if cls == "idle_auto":
                    if not idle:
                        nq += 1
                        idle = [nq - 1]
                    obs = rand_obs(rng, nq, int(rng.integers(1, 4)), identity_on=idle)
                    k = int(rng.integers(0, len(obs)))
                    s_ = list(reversed(obs[k][1]))
                    s_[int(pick(rng, idle))] = pick(rng, ["X", "Y", "Z"])
                    obs[k][1] = "".join(reversed(s_))
                elif obs is not None:
                    obs = rand_obs(rng, nq, len(obs), identity_on=idle)      # identity on idle qubits: accepted
                if cls == "auto_plus_offence":
                    cls = pick(rng, ["observable_phase", "classical_bits", "observable_size"])
            if cls in ("valid_idle", "idle_explicit"):
                # explicit label None on qubits that no instruction touches
                used = {qq for it in items for qq in it[-1]}
                idle = [k for k in range(nq) if k not in used]
                if not idle:
                    nq += 1
                    idle = [nq - 1]
                    labels = list(labels) + [None]
                labels = [None if k in idle and (k == idle[0] or rng.integers(0, 2)) else l for k, l in enumerate(labels)]
                none_q = [k for k, l in enumerate(labels) if l is None]
                obs = rand_obs(rng, nq, int(rng.integers(1, 4)), identity_on=none_q)
                if cls == "idle_explicit":
                    k = int(rng.integers(0, len(obs)))
                    s_ = list(reversed(obs[k][1]))
                    s_[int(pick(rng, none_q))] = pick(rng, ["X", "Y", "Z"])
                    obs[k][1] = "".join(reversed(s_))
                    aslist = bool(rng.integers(0, 3) == 0)
            two = cls == "two_offences"
            if two:
                cls = "observable_phase"
            if cls in ("observable_size", "observable_phase") and obs is None:
                obs = rand_obs(rng, nq, int(rng.integers(1, 5)))
            if cls == "observable_size":
                k = int(rng.integers(0, len(obs)))
                m = max(1, nq + int(pick(rng, [-1, 1, 2])))
                if m == nq:
                    m = nq + 1
                if rng.integers(0, 2):        # only observable k is wrong: needs a list of Pauli
                    aslist = True
                    obs[k] = rand_obs(rng, m, 1)[0]
                else:                          # PauliList: every observable has the wrong size
                    obs = rand_obs(rng, m, len(obs))
            if cls == "observable_phase":
                k = int(rng.integers(0, len(obs)))
                obs[k][0] = int(rng.integers(1, 4))
                aslist = bool(rng.integers(0, 4) == 0)
            if cls == "classical_bits" or two:
                clbits = pick(rng, ["creg", "loose", "empty_creg", "creg2"])
            if two and rng.integers(0, 2):
                labels = list(labels) + [labels[0]]                         # + a label count mismatch
            if cls == "none_label_not_idle":
                used = sorted({qq for it in items for qq in it[-1]})
                if not used:
                    items.append(["g1", "x", [0]])
                    used = [0]
                labels = list(labels)
                labels[int(pick(rng, used))] = None
            yield cls, dict(nq=nq, items=items, labels=None if labels is None else [tagged(l) for l in labels],
                            obs=obs, aslist=aslist, clbits=clbits, layout=rand_layout(rng, nq))


@kind("separate")
class KSeparate:
    checker = "chk_separate"

    def run(self, desc):
        qc = build_circuit(desc["nq"], desc["items"], layout=desc.get("layout"))
        labels = None if desc["labels"] is None else [untag(t) for t in desc["labels"]]
        a = dict(nq=qc.num_qubits, labels=None if labels is None else intern_labels(labels),
                 insts=[[i.operation.name == "barrier", [qc.find_bit(x).index for x in i.qubits]] for i in qc.data])
        return a, observe(separate_circuit, [qc, labels])

    def emit(self, a, impl):
        labels = "None" if a["labels"] is None else f"(Some {coq(c_labels(a['labels']))})"
        i = Raw(f"(mkSep {a['nq']} {labels} {coq([(bool(b), list(qs)) for b, qs in a['insts']])})")
        return (i, c_out(impl["outcome"]), impl["unchanged"])

    def classes(self, a):
        if a["labels"] is None:
            return []
        if len(a["labels"]) != a["nq"]:
            return ["label_count"]
        out = []
        for b, qs in a["insts"]:
            if any(a["labels"][x] is None for x in qs):
                out.append("none_label_not_idle")
            elif not b and spans(a["labels"], qs) > 1:
                out.append("spans_partitions")
        return out

    def gen(self, rng, q):
        for _ in range(q(70)):
            cls = pick(rng, ["valid", "valid", "valid_auto", "label_count", "spans_partitions", "none_label_not_idle"])
            nq = int(rng.integers(1, 6))
            labels = rand_labels(rng, nq)
            items = [it for it in rand_items(rng, nq, labels) if len(it[-1]) == 1 or it[0] == "barrier" or spans(labels, it[-1]) == 1]
            if cls == "valid_auto":
                labels = None
            elif cls == "label_count":
                d = int(pick(rng, [-1, 1, 2]))
                labels = labels[:d] if d < 0 else labels + [labels[0]] * d
            elif cls == "spans_partitions":
                qs = spanning_pair(rng, labels, int(pick(rng, [2, 2, 3])))
                if qs is None:
                    nq, labels = 3, ["A", "B", "A"]
                    items = []
                    qs = [0, 1]
                items, _ = insert_random(rng, items, ["g2", "cx", qs] if len(qs) == 2 else ["g3", "ccx", qs])
            elif cls == "none_label_not_idle":
                if not items:
                    items = [["g1", "x", [0]]]
                used = sorted({qq for it in items for qq in it[-1]})
                labels[int(pick(rng, used))] = None
            yield cls, dict(nq=nq, items=items, labels=None if labels is None else [tagged(l) for l in labels],
                            layout=rand_layout(rng, nq))


@kind("find_cuts")
class KFindCuts:
    checker = "chk_find_cuts"

    def run(self, desc):
        qc = build_circuit(desc["nq"], desc["items"], layout=desc.get("layout"))
        opt = OptimizationParameters(seed=desc["seed"], max_gamma=budget_value(desc["g"]),
                                     max_backjumps=None if desc["bj"] is None else budget_value(desc["bj"]))
        dc = DeviceConstraints(desc["W"])
        a = dict(insts=abs_insts(qc), g=desc["g"], bj=desc["bj"])
        return a, observe(find_cuts, [qc, opt, dc])

    def emit(self, a, impl):
        i = Raw(f"(mkFc {coq([c_ginst(g) for g in a['insts']])} {c_budget(a['g']).s} {c_optbudget(a['bj']).s})")
        return (i, c_out(impl["outcome"]), impl["unchanged"])

    def classes(self, a):
        out = []
        if b_lt(a["g"], 1):
            out.append("gamma_lt1")
        if a["bj"] is not None and b_lt(a["bj"], 0):
            out.append("backjumps_negative")
        for g in a["insts"]:
            if g["kind"] != "barrier" and len(g["qs"]) > 2:
                out.append("wide_gate")
            if g["kind"] == "op" and g["desc"][3] and len(g["qs"]) == 2 and desc_refuses(g["desc"]):
                out.append("unbound")
        return out

    def gen(self, rng, q):
        for _ in range(q(60)):
            cls = pick(rng, ["valid", "gamma_lt1", "backjumps_negative", "wide_gate", "wide_gate", "unbound"])
            nq = int(rng.integers(2, 5))
            items = [it for it in rand_items(rng, nq, None, n=int(rng.integers(1, 6)), allow_wide_local=False)]
            g, bj = pick(rng, [num(1024), num(64), num(4), num(9, 2, True)]), pick(rng, [None, num(10000), num(0), num(50)])
            if cls == "gamma_lt1":
                g = pick(rng, BAD_LT1)
            elif cls == "backjumps_negative":
                bj = pick(rng, BAD_LT0)
            elif cls == "wide_gate":
                if nq < 3:
                    nq = 3
                wd = 4 if nq >= 4 and rng.integers(0, 3) == 0 else 3
                items, _ = insert_random(rng, items, offending_item(rng, "wide_gate", [int(x) for x in rng.permutation(nq)[:wd]]))
            elif cls == "unbound":
                a, b = (int(x) for x in rng.permutation(nq)[:2])
                items, _ = insert_random(rng, items, offending_item(rng, "unbound", [a, b]))
            yield cls, dict(nq=nq, items=items, g=g, bj=bj, W=int(rng.integers(1, nq + 1)), seed=int(rng.integers(0, 1000)),
                            layout=rand_layout(rng, nq))


# --------------------------------------------------------------------------------------
# generate_cutting_experiments
# --------------------------------------------------------------------------------------
def suffix_int(label):
    try:
        int(label.split("_")[-1])
        return True
    except (AttributeError, ValueError):
        return False


def gen_kinds(qc):
    out = []
    for inst in qc.data:
        op = inst.operation
        if isinstance(op, SingleQubitQPDGate):
            out.append(["q1", suffix_int(op.label)])
        elif isinstance(op, TwoQubitQPDGate):
            out.append(["q2"])
        else:
            out.append(["o"])
    return out


def c_genkind(k):
    return Raw({"q2": "GQpd2", "o": "GOther"}.get(k[0]) or f"(GQpd1 {'true' if k[1] else 'false'})")


BAD_LABELS = [None, "foo", "cut_cx", "cut_x", "a_b_c", "cut_1.0", "cut_", "_"]


@kind("generate")
class KGenerate:
    checker = "chk_generate"

    def build(self, desc):
        nq = desc["nq"]
        obs = make_obs(desc["obs"])
        if desc["sep"]:
            qc = build_circuit(nq, desc["items"], layout=desc.get("layout"))
            labels = [untag(t) for t in desc["labels"]]
            pp = partition_problem(qc, labels, obs)
            circuits, observables = dict(pp.subcircuits), dict(pp.subobservables)
        else:
            circuits, observables = build_circuit(nq, desc["items"], layout=desc.get("layout")), obs
        m = desc.get("mutate")
        if m and m[0] == "label":
            # relabel the m[2]-th SingleQubitQPDGate of the m[1]-th subcircuit
            allpos = [(key, i) for key, c in circuits.items() for i, inst in enumerate(c.data)
                      if isinstance(inst.operation, SingleQubitQPDGate)]
            key, i = allpos[(m[1] + m[2]) % len(allpos)]
            c = circuits[key]
            old = c.data[i].operation
            c.data[i] = c.data[i].replace(operation=SingleQubitQPDGate(old.basis, old.qubit_id, label=m[3]))
        elif m and m[0] == "q1":
            b = QPDBasis.from_instruction(CXGate())
            circuits.data.insert(m[1] % (len(circuits.data) + 1),
                                 CircuitInstruction(SingleQubitQPDGate(b, m[2], label=m[3]), [circuits.qubits[m[4] % nq]]))
        elif m and m[0] == "phase":
            # give a phase to the m[2]-th observable of subsystem m[1] (dict form) / of the PauliList
            if isinstance(observables, dict):
                key = list(observables)[m[1] % len(observables)]
                ps = list(observables[key])
                ps[m[2] % len(ps)].phase = m[3]
                observables[key] = PauliList(ps)
            else:
                ps = list(obs)
                ps[m[2] % len(ps)].phase = m[3]
                obs = observables = PauliList(ps)
        elif m and m[0] == "obs_size":
            # widen/narrow the observables of subsystem m[1] (dict form) / the PauliList by m[2] qubits
            def resize(pl, d):
                n = max(1, pl.num_qubits + d)
                n = n + 1 if n == pl.num_qubits else n
                return PauliList(["Z" * n for _ in range(len(pl))])
            if isinstance(observables, dict):
                key = list(observables)[m[1] % len(observables)]
                observables[key] = resize(observables[key], m[2])
            else:
                obs = observables = resize(obs, m[2])
        elif m and m[0] == "obs_key":      # undocumented: observables has a label that circuits lacks
            observables["zz_extra"] = PauliList(["Z"] * len(obs))
        elif m and m[0] == "circ_key":     # undocumented: circuits has a label that observables lacks
            k0 = list(observables)[m[1] % len(observables)]
            if len(observables) > 1:
                del observables[k0]
        cf, of = desc["cform"], desc["oform"]
        if cf == "dict" and not desc["sep"]:
            circuits = {"A": circuits}
        if cf == "other":
            circuits = list(circuits.values()) if isinstance(circuits, dict) else [circuits]
        if of == "dict" and not isinstance(observables, dict):
            observables = {"A": observables}
        elif of == "plist" and isinstance(observables, dict):
            observables = obs
        elif of == "list":
            observables = list(obs)
        elif of == "none":
            observables = None
        return circuits, observables, budget_value(desc["n"])

    def run(self, desc):
        circuits, observables, n = self.build(desc)
        cf = "circuit" if isinstance(circuits, QuantumCircuit) else "dict" if isinstance(circuits, dict) else "other"
        of = "plist" if isinstance(observables, PauliList) else "dict" if isinstance(observables, dict) else "other"
        cs = [gen_kinds(circuits)] if cf == "circuit" else [gen_kinds(c) for c in circuits.values()] if cf == "dict" else []
        phases, tail = [], []
        if cf == "dict" and of == "dict":
            phases = [[int(p.phase) for p in v] for v in observables.values()]
            tail = [[k in circuits, k in circuits and v.num_qubits == circuits[k].num_qubits] for k, v in observables.items()]
        elif cf == "circuit" and of == "plist":
            phases = [[int(p.phase) for p in observables]]
            tail = [[True, observables.num_qubits == circuits.num_qubits]]
        a = dict(cform=cf, oform=of, n=desc["n"], circs=cs, phases=phases, tail=tail)
        return a, observe(generate_cutting_experiments, [circuits, observables, n])

    def emit(self, a, impl):
        cf = {"circuit": "CCircuit", "dict": "CDict", "other": "COther"}[a["cform"]]
        of = {"plist": "OPauliList", "dict": "ODict", "other": "OOther"}[a["oform"]]
        ph = a["phases"] if a["cform"] == "dict" else []      # the model reads phases in the dictionary form only
        i = Raw(f"(mkGen {cf} {of} {c_budget(a['n']).s} {coq([[c_genkind(k) for k in c] for c in a['circs']])} "
                f"{coq([list(x) for x in ph])} {coq([(bool(x), bool(y)) for x, y in a['tail']])})")
        return (i, c_out(impl["outcome"]), impl["unchanged"])

    def classes(self, a):
        out = []
        if a["cform"] == "circuit" and a["oform"] != "plist":
            out.append("form_circuit_needs_paulilist")
        if a["cform"] == "dict" and a["oform"] != "dict":
            out.append("form_dict_needs_dict")
        if a["n"][0] == "nan":
            out.append("budget_nan")
        elif not b_ge(a["n"], 1):
            out.append("budget_lt1")
        if a["cform"] == "circuit" and any(k[0] == "q1" for c in a["circs"] for k in c):
            out.append("single_qubit_qpd_gate_unseparated")
        if a["cform"] == "dict" and any(k[0] == "q1" and not k[1] for c in a["circs"] for k in c):
            out.append("label_suffix")
        if a["cform"] == "dict" and a["oform"] == "dict" and any(p != 0 for s_ in a["phases"] for p in s_):
            out.append("observable_phase")       # (QuantumCircuit + phased PauliList: not documented here, phase dropped)
        for haskey, sizeok in a["tail"]:
            if not haskey:
                break                            # KeyError territory (undocumented)
            if not sizeok:
                out.append("observable_size")
                break
        return out

    def gen(self, rng, q):
        C = ["valid_sep", "valid_unsep", "form_circuit", "form_dict", "budget_lt1", "budget_nan", "q1_unsep", "label", "label",
             "undoc:other_form", "phase_dict", "undoc:phase_circuit", "obs_size", "obs_size", "undoc:obs_key", "undoc:circ_key"]
        for _ in range(q(110)):
            cls = pick(rng, C)
            sep = cls in ("valid_sep", "label", "phase_dict", "undoc:obs_key", "undoc:circ_key") or (
                cls in ("form_dict", "budget_lt1", "budget_nan", "undoc:other_form", "obs_size") and rng.integers(0, 2))
            nq = int(rng.integers(2, 5))
            n = pick(rng, [num(1), num(3), num(10), num(25, 2, True), ["inf"]])
            mutate = None
            if sep:
                labels = rand_labels(rng, nq, 2)
                labels[0], labels[1] = "A", "B"
                items = [it for it in rand_items(rng, nq, labels, n=int(rng.integers(1, 5)), allow_wide_local=False)]
                iscut = lambda it: it[0] != "barrier" and len(it[-1]) == 2 and spans(labels, it[-1]) > 1  # noqa: E731
                ncut = sum(1 for it in items if iscut(it))
                while ncut > 2:   # keep the number of cuts (6^k terms) small
                    k = max(i for i, it in enumerate(items) if iscut(it))
                    items.pop(k)
                    ncut -= 1
                if ncut == 0:
                    items.append(["g2", "cx", [0, 1]])
                items += [["g1", "h", [k]] for k in range(nq)]
                d = dict(sep=True, labels=[tagged(l) for l in labels], cform="dict", oform="dict")
            else:
                items = []
                for _k in range(int(rng.integers(1, 5))):
                    a, b = (int(x) for x in rng.permutation(nq)[:2])
                    items.append(pick(rng, [["g1", "h", [a]], ["g2", "cx", [a, b]], ["g1", "sx", [b]]]))
                for _k in range(int(rng.integers(1, 3))):
                    a, b = (int(x) for x in rng.permutation(nq)[:2])
                    items, _ = insert_random(rng, items, ["qpd2", pick(rng, ["cx", "cz", "rzz"]), None, [a, b]])
                d = dict(sep=False, cform="circuit", oform="plist")
            if cls == "form_circuit":
                d["oform"] = pick(rng, ["dict", "list", "none"])
            elif cls == "form_dict":
                d["cform"], d["oform"] = "dict", pick(rng, ["plist", "list", "none"])
            elif cls == "budget_lt1":
                n = pick(rng, BAD_LT1)
            elif cls == "budget_nan":
                n = ["nan"]
            elif cls == "q1_unsep":
                mutate = ["q1", int(rng.integers(0, 50)), int(rng.integers(0, 2)), pick(rng, ["cut_cx_0", None, "foo"]), int(rng.integers(0, 50))]
            elif cls == "label":
                mutate = ["label", int(rng.integers(0, 50)), int(rng.integers(0, 50)), pick(rng, BAD_LABELS)]
            elif cls == "undoc:other_form":
                d["cform"], d["oform"] = "other", "dict"
            elif cls in ("phase_dict", "undoc:phase_circuit"):
                mutate = ["phase", int(rng.integers(0, 50)), int(rng.integers(0, 50)), int(rng.integers(1, 4))]
            elif cls == "obs_size":
                mutate = ["obs_size", int(rng.integers(0, 50)), int(pick(rng, [-1, 1, 2]))]
            elif cls == "undoc:obs_key":
                mutate = ["obs_key"]
            elif cls == "undoc:circ_key":
                mutate = ["circ_key", int(rng.integers(0, 50))]
            d.update(nq=nq, items=items, obs=rand_obs(rng, nq, int(rng.integers(1, 3))), n=n, mutate=mutate)
            yield cls, d


# --------------------------------------------------------------------------------------
# reconstruct_expectation_values
# --------------------------------------------------------------------------------------
def fake_primitive(count, shots=2):
    """a real SamplerV2 result with `count` pubs carrying the two registers reconstruct reads"""
    from qiskit.primitives.containers import SamplerPubResult, DataBin, BitArray
    pubs = []
    for k in range(count):
        arr = np.array([[k % 2]] * shots, dtype=np.uint8)
        data = DataBin(observable_measurements=BitArray(arr.copy(), num_bits=1),
                       qpd_measurements=BitArray(np.zeros((shots, 1), dtype=np.uint8), num_bits=1), shape=())
        pubs.append(SamplerPubResult(data))
    return PrimitiveResult(pubs)


def fake_result(count, prim=False):
    if prim:
        return fake_primitive(count)
    return SamplerResult(quasi_dists=[QuasiDistribution({0: 0.75, 1: 0.25}) for _ in range(count)], metadata=[{} for _ in range(count)])


def qwc_partition_ok(obs, groups):
    """oracle contract for ObservableCollection: the groups partition the distinct observables and each group is
    qubit-wise commuting (the NUMBER of groups is the grouping heuristic's choice, so it is taken from there)"""
    want = {str(p) for p in obs}
    got = [str(p) for g in groups for p in g.commuting_observables]
    if set(got) != want or len(got) != len(set(got)):
        return False
    for g in groups:
        ps = list(g.commuting_observables)
        for k in range(obs.num_qubits):
            letters = {(bool(p.x[k]), bool(p.z[k])) for p in ps} - {(False, False)}
            if len(letters) > 1:
                return False
    return True


@kind("reconstruct")
class KReconstruct:
    checker = "chk_reconstruct"
    contract_log = []

    def build(self, desc):
        obs = {untag(k): make_obs(v) for k, v in desc["obs"]}
        results = {untag(r[0]): fake_result(r[1], prim=(len(r) > 2 and r[2] == "prim")) for r in desc["results"]}
        coefs = [(0.5 if i % 2 else -0.25, WeightType.EXACT) for i in range(desc["ncoef"])]
        of, rf = desc["oform"], desc["rform"]
        o = obs if of == "dict" else list(obs.values())[0] if of == "plist" else (list(list(obs.values())[0]) if of == "list" else None)
        r = results if rf == "dict" else list(results.values())[0] if rf == "result" else (list(results.values()) if rf == "list" else None)
        return r, coefs, o

    def run(self, desc):
        r, coefs, o = self.build(desc)
        of = "plist" if isinstance(o, PauliList) else "dict" if isinstance(o, dict) else "other"
        rf = "result" if isinstance(r, (SamplerResult, PrimitiveResult)) else "dict" if isinstance(r, dict) else "other"
        subs = [o] if of == "plist" else list(o.values()) if of == "dict" else []
        phases = [[int(p.phase) for p in s] for s in subs]
        keys_match = of == "dict" and rf == "dict" and o.keys() == r.keys()
        counts = []
        if (of == "plist" and rf == "result") or keys_match:
            res = [r] if of == "plist" else [r[k] for k in o]
            for s, rr in zip(subs, res):
                strip = PauliList([Pauli((p.z, p.x)) for p in s])     # phases dropped: only the grouping is needed
                groups = ObservableCollection(strip).groups
                ok = qwc_partition_ok(strip, groups)
                self.contract_log.append(ok)
                counts.append([len(rr.quasi_dists) if isinstance(rr, SamplerResult) else len(rr), len(groups)])
        a = dict(oform=of, rform=rf, phases=phases, keys_match=bool(keys_match), ncoef=len(coefs), counts=counts)
        return a, observe(reconstruct_expectation_values, [r, coefs, o])

    def emit(self, a, impl):
        of = {"plist": "OPauliList", "dict": "ODict", "other": "OOther"}[a["oform"]]
        rf = {"result": "RResult", "dict": "RDict", "other": "ROther"}[a["rform"]]
        i = Raw(f"(mkRec {of} {rf} {coq(a['phases'])} {coq(a['keys_match'])} {a['ncoef']} {coq([tuple(c) for c in a['counts']])})")
        return (i, c_out(impl["outcome"]), impl["unchanged"])

    def classes(self, a):
        out = []
        if a["oform"] == "other":
            out.append("form_observables")
        if a["oform"] == "plist" and a["rform"] != "result":
            out.append("form_paulilist_needs_result")
        if a["oform"] == "dict" and a["rform"] != "dict":
            out.append("form_dict_needs_dict")
        if a["oform"] == "dict" and a["rform"] == "dict" and not a["keys_match"]:
            out.append("partition_keys")
        if any(p != 0 for s in a["phases"] for p in s):
            out.append("observable_phase")
        if any(n != a["ncoef"] * g for n, g in a["counts"]):
            out.append("result_count")
        return out

    def gen(self, rng, q):
        C = ["valid_dict", "valid_plist", "form_plist", "form_dict", "form_other", "keys", "phase", "phase", "counts", "counts"]
        for _ in range(q(110)):
            cls = pick(rng, C)
            single = cls in ("valid_plist", "form_plist") or (cls in ("phase", "counts", "form_other") and rng.integers(0, 3) == 0)
            nsub = 1 if single else int(rng.integers(1, 4))
            keys = [LABEL_POOL[i] for i in rng.permutation(len(LABEL_POOL))[:nsub]]
            m = int(rng.integers(1, 4))
            ncoef = int(rng.integers(1, 5))
            obs, results = [], []
            for k in keys:
                o = rand_obs(rng, int(rng.integers(1, 4)), m)
                strip = PauliList([Pauli(x[1]) for x in o])
                obs.append([tagged(k), o])
                results.append([tagged(k), ncoef * len(ObservableCollection(strip).groups)])
            d = dict(oform="plist" if single else "dict", rform="result" if single else "dict")
            if cls == "form_plist":
                d["rform"] = pick(rng, ["dict", "list", "none"])
            elif cls == "form_dict":
                d["rform"] = pick(rng, ["result", "list", "none"])
            elif cls == "form_other":
                d["oform"] = pick(rng, ["list", "none"])
            elif cls == "keys":
                r = int(rng.integers(0, 3))
                j = int(rng.integers(0, nsub))
                if r == 0:
                    results[j][0] = tagged("zz")
                elif r == 1 and nsub > 1:
                    results.pop(j)
                else:
                    results.append([tagged("extra"), 1])
            elif cls == "phase":
                j, k = int(rng.integers(0, nsub)), int(rng.integers(0, m))
                obs[j][1][k][0] = int(rng.integers(1, 4))
            elif cls == "counts":
                j = int(rng.integers(0, nsub))
                if rng.integers(0, 2):
                    results[j][1] = max(0, results[j][1] + int(pick(rng, [-1, 1, 2])))
                else:
                    ncoef += 1
            if cls in ("valid_dict", "valid_plist", "counts", "phase", "keys") and rng.integers(0, 3) == 0:
                results = [[r[0], r[1], "prim"] for r in results]          # SamplerV2 PrimitiveResult
            if d["rform"] == "dict" and len(results) > 1 and rng.integers(0, 2):
                results = [results[i] for i in rng.permutation(len(results))]   # key order of results differs
            d.update(obs=obs, results=results, ncoef=ncoef)
            yield cls, d


# --------------------------------------------------------------------------------------
# decompose_qpd_instructions
# --------------------------------------------------------------------------------------
DQ_BASES = ["cx", "cz", "rzz", "move", "cx"]        # index = basis slot; slots 0 and 4 are == (both CX)


def dq_basis(slot):
    return QPDBasis.from_instruction({"cx": CXGate(), "cz": CZGate(), "rzz": RZZGate(0.5), "move": Move()}[DQ_BASES[slot]])


def dq_build(desc):
    """items: ["g1",name,[q]] | ["g2",name,[a,b]] | ["q2", slot, bid, [a,b]] | ["q1", slot, half, bid, [q]]"""
    qc = QuantumCircuit(desc["nq"])
    for it in desc["items"]:
        if it[0] == "q2":
            qc.append(TwoQubitQPDGate(dq_basis(it[1]), basis_id=it[2], label="cut_0"), it[3])
        elif it[0] == "q1":
            qc.append(SingleQubitQPDGate(dq_basis(it[1]), it[2], basis_id=it[3], label="cut_0"), it[4])
        else:
            qc.append(make_op(it), it[-1])
    return qc


def dq_abs(qc):
    ctx = CircCtx()
    out = []
    for inst in qc.data:
        op = inst.operation
        if isinstance(op, BaseQPDGate):
            out.append([ctx.basis_id(op.basis), len(op.basis.maps), op.basis_id])
        else:
            out.append(None)
    return out


def dq_bids(qc):
    out = []
    for i in qc.data:
        b = getattr(i.operation, "basis_id", None) if isinstance(i.operation, BaseQPDGate) else None
        out.append(None if b is None else int(b))          # (a numpy map id would not be JSON-serialisable)
    return out


@kind("decompose")
class KDecompose:
    checker = "chk_dq"
    finding = "F7"

    def run(self, desc):
        qc = dq_build(desc)
        ids = [list(g) for g in desc["ids"]]
        maps = None if desc["maps"] is None else list(desc["maps"])
        if maps is not None and desc.get("np_maps"):
            maps = [m if m is None else np.int64(m) for m in maps]
        a = dict(circ=dq_abs(qc), ids=ids, maps=None if maps is None else [None if m is None else int(m) for m in maps],
                 inplace=desc["inplace"],
                 two=[k for k, inst in enumerate(qc.data) if isinstance(inst.operation, TwoQubitQPDGate)])
        args = [qc, ids] + ([] if maps is None else [maps])
        impl = observe(decompose_qpd_instructions, args, dict(inplace=desc["inplace"]),
                       state=lambda: dq_bids(qc) if len(qc.data) == len(a["circ"]) else None)
        return a, impl

    def emit(self, a, impl):
        circ = [Raw("DOther") if x is None else Raw(f"(DQ {x[0]} {x[1]} {c_optn(x[2]).s})") for x in a["circ"]]
        maps = "None" if a["maps"] is None else f"(Some {coq([c_optz(m) for m in a['maps']])})"
        i = Raw(f"(mkDq {coq(circ)} {coq(a['ids'])} {maps} {coq(list(a['two']))})")
        fin = impl["final"] if impl["final"] is not None else []
        return (i, a["inplace"], c_out(impl["outcome"]), impl["unchanged"], [c_optn(b) for b in fin])

    def classes(self, a):
        c, ids, maps = a["circ"], a["ids"], a["maps"]
        out = []
        if any(k >= len(c) for g in ids for k in g):
            return []           # IndexError territory: not a documented class
        if any(len(g) not in (1, 2) for g in ids):
            out.append("group_size")
        if any(c[k] is None for g in ids for k in g):
            out.append("not_a_qpd_gate")
        if any(c[k] is not None and c[g[0]] is not None and c[k][0] != c[g[0]][0] for g in ids for k in g):
            out.append("bases_differ")
        if any(len(g) == 2 and k in a["two"] for g in ids for k in g):
            out.append("two_qubit_gate_in_pair")
        flat = [k for g in ids for k in g]
        if len(set(flat)) != len(flat):
            out.append("repeated_index")
        if sum(len(g) for g in ids) != sum(1 for x in c if x is not None):
            out.append("gate_total")
        if maps is not None:
            if len(maps) != len(ids):
                out.append("map_count")
            else:
                if any(c[k] is not None and m is not None and not (0 <= m < c[k][1]) for g, m in zip(ids, maps) for k in g):
                    out.append("map_index_range")
                if any(c[k] is not None and m is None for g, m in zip(ids, maps) for k in g):
                    out.append("map_entry_none")
        elif any(x is not None and x[2] is None for x in c):
            out.append("unset_basis_id")          # map_ids omitted and a gate without basis_id
        return out

    def gen(self, rng, q):
        C = ["valid", "valid", "group_size", "not_a_qpd_gate", "bases_differ", "gate_total", "map_count",
             "map_index_range", "map_index_range", "map_index_range", "map_entry_none", "map_entry_none", "unset_basis_id",
             "unset_basis_id", "undoc:index", "repeated_index", "repeated_index", "two_in_pair", "two_in_pair"]
        for _ in range(q(160)):
            cls = pick(rng, C)
            nq = int(rng.integers(2, 5))
            if cls == "valid" and rng.integers(0, 8) == 0:      # nothing to decompose: empty instruction_ids
                yield "valid", dict(nq=nq, items=[["g1", "h", [0]], ["g2", "cx", [0, 1]]], ids=[],
                                    maps=pick(rng, [None, []]), inplace=bool(rng.integers(0, 2)))
                continue
            items, groups = [], []
            for _k in range(int(rng.integers(1, 5))):
                r = int(rng.integers(0, 4))
                a, b = (int(x) for x in rng.permutation(nq)[:2])
                if r == 0:
                    items.append(["g1", pick(rng, list(G1)), [a]])
                elif r == 1:
                    items.append(["g2", "cx", [a, b]])
                elif r == 2:
                    slot = int(rng.integers(0, len(DQ_BASES)))
                    items.append(["q2", slot, None, [a, b]])
                    groups.append(([len(items) - 1], slot))
                else:
                    slot, slot2 = int(pick(rng, [0, 1, 2, 4])), None
                    slot2 = 4 - slot if slot in (0, 4) and rng.integers(0, 2) else slot   # == bases in different objects
                    items.append(["q1", slot, 0, None, [a]])
                    if rng.integers(0, 2):
                        items.append(["g1", "h", [b]])
                    items.append(["q1", slot2, 1, None, [b]])
                    i1 = len(items) - 1
                    i0 = i1 - 1 if items[i1 - 1][0] == "q1" else i1 - 2
                    groups.append(([i0, i1], slot))
            if not groups:
                items.append(["q2", 0, None, [0, 1]])
                groups.append(([len(items) - 1], 0))
            if not any(it[0] in ("g1", "g2") for it in items):
                items.append(["g1", "x", [0]])
            while cls in ("map_index_range", "map_entry_none", "unset_basis_id") and len(groups) < 2:
                items.append(["q2", int(rng.integers(0, 4)), None, [0, 1]])
                groups.append(([len(items) - 1], items[-1][1]))
            order = [int(x) for x in rng.permutation(len(groups))]
            groups = [groups[i] for i in order]
            ids = [list(g) for g, _ in groups]
            nm = [len(dq_basis(s).maps) for _, s in groups]
            maps = [int(rng.integers(0, n)) for n in nm]
            base_maps = list(maps)   # aligned with `groups` whatever the class mutation does to ids/maps below
            other = [i for i, it in enumerate(items) if it[0] in ("g1", "g2")]
            j = int(rng.integers(0, len(ids)))
            if cls in ("map_index_range", "map_entry_none", "unset_basis_id") and len(ids) > 1 and rng.integers(0, 5):
                j = int(rng.integers(1, len(ids)))      # offending id after at least one good one
            if cls == "group_size":
                ids[j] = pick(rng, [[], ids[j] + [other[0], other[0]][: 3 - len(ids[j])]])
            elif cls == "not_a_qpd_gate":
                g = list(ids[j])
                g[int(rng.integers(0, len(g)))] = int(pick(rng, other))
                ids[j] = g
            elif cls == "bases_differ":
                a, b = (int(x) for x in rng.permutation(nq)[:2])
                items += [["q1", 0, 0, None, [a]], ["q1", 1, 1, None, [b]]]
                ids.insert(j, [len(items) - 2, len(items) - 1])
                maps.insert(j, 0)
            elif cls == "gate_total":
                if len(ids) > 1 and rng.integers(0, 2):
                    ids.pop(j)
                    maps.pop(j)
                else:
                    items.append(["q2", 0, None, [0, 1]])
            elif cls == "map_count":
                maps = maps[:-1] if rng.integers(0, 2) else maps + [0]
            elif cls == "map_index_range":
                maps[j] = int(pick(rng, [nm[j], nm[j] + 3, -1, -nm[j], 99]))
            elif cls == "map_entry_none":
                maps[j] = None
            elif cls == "repeated_index":
                r = int(rng.integers(0, 3))
                if r == 0:
                    # an index listed in two decompositions; the count still matches (one more gate in the circuit)
                    a, b = (int(x) for x in rng.permutation(nq)[:2])
                    items.append(["q2", groups[j][1], None, [a, b]] if len(ids[j]) == 1 else ["q1", groups[j][1], 0, None, [a]])
                    jj = int(rng.integers(0, len(ids) + 1))
                    ids.insert(jj, [ids[j][0]] if len(ids[j]) == 1 or rng.integers(0, 2) else [ids[j][1]])
                    maps.insert(jj, 0)
                elif r == 1:
                    # the same index twice inside one decomposition: [k, k]
                    a, b = (int(x) for x in rng.permutation(nq)[:2])
                    items += [["q1", 0, 0, None, [a]], ["q1", 0, 1, None, [b]]]
                    k = len(items) - int(rng.integers(1, 3))
                    ids.insert(j, [k, k])
                    maps.insert(j, 0)
                else:
                    # a whole decomposition listed twice, count NOT matching either
                    ids.insert(int(rng.integers(0, len(ids) + 1)), list(ids[j]))
                    maps.append(0)
            elif cls == "two_in_pair":
                # a TwoQubitQPDGate inside a two-element decomposition, first or second, with a gate of the same basis
                a, b = (int(x) for x in rng.permutation(nq)[:2])
                slot = int(rng.integers(0, 4))
                items.append(["q2", slot, None, [a, b]])
                k2 = len(items) - 1
                if rng.integers(0, 2):
                    items.append(["q2", slot, None, [b, a]])
                else:
                    items.append(["q1", slot, int(rng.integers(0, 2)), None, [a]])
                k1 = len(items) - 1
                ids.insert(j, [k2, k1] if rng.integers(0, 2) else [k1, k2])
                maps.insert(j, 0)
            elif cls == "undoc:index":
                ids[j] = [len(items) + int(rng.integers(0, 3))]
            use_maps = True
            unset_group = None
            if cls == "unset_basis_id":
                unset_group = groups[j][0]
            if cls == "unset_basis_id" or (cls in ("valid", "group_size", "not_a_qpd_gate", "gate_total") and rng.integers(0, 4) == 0):
                # no map_ids: every gate carries its basis_id already (unset ids are C14/F5's business)
                use_maps = False
                for (g, _), m in zip(groups, base_maps):
                    for k in g:
                        items[k][2 if items[k][0] == "q2" else 3] = int(m or 0) % len(dq_basis(items[k][1]).maps)
                for it in items:
                    if it[0] == "q2" and it[2] is None:
                        it[2] = 0
                    if it[0] == "q1" and it[3] is None:
                        it[3] = 0
                if unset_group is not None:      # the later gate(s) of one decomposition keep basis_id None
                    for k in unset_group[-1:] if rng.integers(0, 2) else unset_group:
                        items[k][2 if items[k][0] == "q2" else 3] = None
            yield cls, dict(nq=nq, items=items, ids=ids, maps=maps if use_maps else None,
                            inplace=bool(rng.integers(0, 3)) or cls in ("unset_basis_id", "map_entry_none", "two_in_pair"),
                            np_maps=bool(use_maps and rng.integers(0, 4) == 0))


# --------------------------------------------------------------------------------------
# expand_observables, simulate_statevector_outcomes, observable grouping
# --------------------------------------------------------------------------------------
@kind("expand")
class KExpand:
    checker = "chk_expand"

    def run(self, desc):
        objs = {k: Qubit() for k in set(desc["oq"]) | set(desc["fq"])}
        oc, fc = QuantumCircuit(), QuantumCircuit()
        oc.add_bits([objs[k] for k in desc["oq"]])
        fc.add_bits([objs[k] for k in desc["fq"]])
        obs = make_obs(rand_obs(np.random.default_rng(desc["nobs"]), desc["nobs"], 2))
        a = dict(nobs=obs.num_qubits, oq=list(desc["oq"]), fq=list(desc["fq"]))
        return a, observe(expand_observables, [obs, oc, fc])

    def emit(self, a, impl):
        return (a["nobs"], a["oq"], a["fq"], c_out(impl["outcome"]), impl["unchanged"])

    def classes(self, a):
        out = []
        if a["nobs"] != len(a["oq"]):
            out.append("observable_size")
        if any(k not in a["fq"] for k in a["oq"]):
            out.append("qubit_missing")
        return out

    def gen(self, rng, q):
        for _ in range(q(40)):
            cls = pick(rng, ["valid", "observable_size", "qubit_missing"])
            n = int(rng.integers(1, 6))
            oq = list(range(n))
            fq = [int(x) for x in rng.permutation(n + int(rng.integers(0, 3)))]
            nobs = n
            if cls == "observable_size":
                nobs = max(1, n + int(pick(rng, [-1, 1, 2])))
                nobs = nobs + 1 if nobs == n else nobs
            elif cls == "qubit_missing":
                fq.remove(int(rng.integers(0, n)))
            yield cls, dict(nobs=nobs, oq=oq, fq=fq)


@kind("simulate")
class KSimulate:
    checker = "chk_simulate"

    def build(self, desc):
        qc = QuantumCircuit(desc["nq"], desc["nc"])
        for it in desc["items"]:
            k = it[0]
            if k == "g1":
                qc.append(G1[it[1]](), [it[2]])
            elif k == "cx":
                qc.cx(it[1], it[2])
            elif k == "measure":
                qc.measure(it[1], it[2])
            elif k == "reset":
                qc.reset(it[1])
            elif k == "cond":
                # it = ["cond", qubit, clbit, what, value, measured clbit]: a conditioned gate / measure / reset
                what = it[3] if len(it) > 3 else "x"
                g = {"x": XGate, "h": HGate, "measure": Measure, "reset": Reset}[what]().to_mutable()
                g.condition = (qc.clbits[it[2]], it[4] if len(it) > 4 else 1)
                qc.append(g, [it[1]], [qc.clbits[it[5]]] if what == "measure" else [])
            elif k == "clop":
                qc.append(Instruction("clop", 1, 1, []), [it[1]], [it[2]])
        return qc

    def run(self, desc):
        qc = self.build(desc)
        a = dict(insts=[[bool(i.operation.condition_bits), i.operation.name in ("measure", "reset"), len(i.clbits)] for i in qc.data])
        if desc.get("sampler"):
            from qiskit_addon_cutting.utils.simulation import ExactSampler
            return a, observe(lambda circ: ExactSampler().run([circ]).result(), [qc])
        return a, observe(simulate_statevector_outcomes, [qc])

    def emit(self, a, impl):
        l = [Raw(f"(mkSim {coq(c)} {coq(m)} {n})") for c, m, n in a["insts"]]
        return (l, c_out(impl["outcome"]), impl["unchanged"])

    def classes(self, a):
        out = []
        if any(c for c, _, _ in a["insts"]):
            out.append("conditioned")
        if any((not m) and n != 0 for _, m, n in a["insts"]):
            out.append("classical_bit_on_gate")
        return out

    def gen(self, rng, q):
        for _ in range(q(60)):
            cls = pick(rng, ["valid", "conditioned", "conditioned", "conditioned", "classical_bit_on_gate"])
            nq, nc = int(rng.integers(1, 4)), int(rng.integers(1, 3))
            items = []
            for _k in range(int(rng.integers(1, 6))):
                a = int(rng.integers(0, nq))
                items.append(pick(rng, [["g1", "h", a], ["g1", "x", a], ["measure", a, int(rng.integers(0, nc))], ["reset", a]] +
                                  ([["cx", a, (a + 1) % nq]] if nq > 1 else [])))
            if cls == "conditioned":
                # a conditioned gate, measure or reset at any position (first, last, after the bit was measured or not)
                it = ["cond", int(rng.integers(0, nq)), int(rng.integers(0, nc)), pick(rng, ["x", "h", "measure", "measure", "reset", "reset"]),
                      int(rng.integers(0, 2)), int(rng.integers(0, nc))]
                items, _ = insert_random(rng, items, it)
            elif cls != "valid":
                items, _ = insert_random(rng, items, ["clop", int(rng.integers(0, nq)), int(rng.integers(0, nc))])
            sampler = bool(rng.integers(0, 2))
            if sampler and not any(it[0] == "measure" for it in items):
                items.append(["measure", int(rng.integers(0, nq)), int(rng.integers(0, nc))])   # BaseSamplerV1 insists on one
            yield cls, dict(nq=nq, nc=nc, items=items, sampler=sampler)


def letters_of(label):
    return ["IXYZ".index(ch) for ch in reversed(label)]


@kind("mgo")
class KMgo:
    checker = "chk_mgo"

    def run(self, desc):
        obs = [Pauli(o) if p else o for p, o in desc["obs"]]
        if desc["plist"]:
            obs = PauliList(obs)
        a = dict(obs=[letters_of(o) if p else None for p, o in desc["obs"]], nq=desc["nq"])
        return a, observe(most_general_observable, [obs], dict(num_qubits=desc["nq"]))

    def emit(self, a, impl):
        l = [Raw("None") if o is None else Raw(f"(Some {coq(o)})") for o in a["obs"]]
        return (l, c_optn(a["nq"]), c_out(impl["outcome"]), impl["unchanged"])

    def classes(self, a):
        obs = a["obs"]
        if not obs:
            return ["empty"]
        out = []
        if any(o is None for o in obs):
            out.append("not_a_pauli")
        nq = a["nq"] if a["nq"] is not None else (len(obs[0]) if obs[0] is not None else None)
        if nq is not None and any(o is not None and len(o) != nq for o in obs):
            out.append("observable_size")
        if nq is not None and not out:
            for i in range(nq):
                if len({o[i] for o in obs if o[i] != 0}) > 1:
                    out.append("not_commuting")
                    break
        return out

    def gen(self, rng, q):
        for _ in range(q(50)):
            cls = pick(rng, ["valid", "valid", "empty", "not_a_pauli", "observable_size", "not_commuting"])
            n = int(rng.integers(1, 5))
            gen_ = [int(rng.integers(0, 4)) for _ in range(n)]
            k = int(rng.integers(1, 5))
            obs = []
            for _k in range(k):
                s = [g if rng.integers(0, 2) else 0 for g in gen_]
                obs.append([True, "".join("IXYZ"[x] for x in reversed(s))])
            nq, plist = (n if rng.integers(0, 2) else None), bool(rng.integers(0, 2))
            j = int(rng.integers(0, k))
            if cls == "empty":
                obs, plist = [], False
            elif cls == "not_a_pauli":
                obs[j][0], plist = False, False
            elif cls == "observable_size":
                obs[j][1] = obs[j][1] + "I" if rng.integers(0, 2) or n == 1 else obs[j][1][1:]
                plist = False
                if j == 0:
                    nq = n
            elif cls == "not_commuting":
                i = int(rng.integers(0, n))
                a, b = (int(x) + 1 for x in rng.permutation(3)[:2])
                s0, s1 = letters_of(obs[0][1]), letters_of(obs[j][1])
                s0[i] = a
                obs[0][1] = "".join("IXYZ"[x] for x in reversed(s0))
                s1 = letters_of(obs[j][1]) if j else s0
                s1 = list(s1)
                s1[i] = b
                obs.append([True, "".join("IXYZ"[x] for x in reversed(s1))])
            yield cls, dict(obs=obs, nq=nq, plist=plist)


@kind("cog")
class KCog:
    checker = "chk_cog"

    def run(self, desc):
        ps = list(make_obs(desc["obs"], aslist=True))
        gen_ = Pauli(desc["general"])
        return dict(phases=[int(p.phase) for p in ps]), observe(CommutingObservableGroup, [gen_, ps])

    def emit(self, a, impl):
        return (a["phases"], c_out(impl["outcome"]), impl["unchanged"])

    def classes(self, a):
        return ["observable_phase"] if any(p != 0 for p in a["phases"]) else []

    def gen(self, rng, q):
        for _ in range(q(24)):
            n = int(rng.integers(1, 4))
            k = int(rng.integers(1, 4))
            obs = [[0, "".join(pick(rng, ["I", "Z"]) for _ in range(n))] for _ in range(k)]
            bad = bool(rng.integers(0, 2))
            if bad:
                obs[int(rng.integers(0, k))][0] = int(rng.integers(1, 4))
            yield ("observable_phase" if bad else "valid"), dict(obs=obs, general="Z" * n)


# --------------------------------------------------------------------------------------
# driver interface: generate / judge / rerun / witness
# --------------------------------------------------------------------------------------
ORDER = ["decompose", "pcq", "cut_gates", "partition_problem", "generate", "reconstruct", "find_cuts", "separate",
         "from_instruction", "theta", "weights", "device", "settings", "qpdbasis", "set_coeffs", "set_basis_id", "q1gate",
         "q2gate", "expand", "simulate", "mgo", "cog"]
CURRENT = {"decompose": "chk_dq_current", "pcq": "chk_pcq_current", "cut_gates": "chk_cut_gates_current"}


_T5 = " * bool * outcome * bool * "
CASE_TYPES = {
    "chk_weights": "budget * outcome * bool", "chk_device": "budget * outcome * bool",
    "chk_settings": "budget * option budget * outcome * bool", "chk_from_instruction": "gate_desc * outcome * bool",
    "chk_theta": "bool * outcome * bool",
    "chk_pcq": "pcq_in" + _T5 + "list bool", "chk_pcq_current": "pcq_in" + _T5 + "list bool",
    "chk_cut_gates": "cg_in" + _T5 + "list bool", "chk_cut_gates_current": "cg_in" + _T5 + "list bool",
    "chk_partition_problem": "pp_in * outcome * bool", "chk_find_cuts": "fc_in * outcome * bool",
    "chk_generate": "gen_in * outcome * bool", "chk_reconstruct": "rec_in * outcome * bool",
    "chk_qpdbasis": "list nat * nat * outcome * bool", "chk_set_coeffs": "nat * nat * outcome * bool",
    "chk_set_basis_id": "nat * option Z * outcome * bool", "chk_q1gate": "nat * nat * Z * option Z * outcome * bool",
    "chk_q2gate": "nat * nat * option Z * outcome * bool",
    "chk_dq": "dq_in" + _T5 + "list (option nat)", "chk_dq_current": "dq_in" + _T5 + "list (option nat)",
    "chk_separate": "sep_in * outcome * bool", "chk_expand": "nat * list nat * list nat * outcome * bool",
    "chk_simulate": "list sim_inst * outcome * bool", "chk_mgo": "list (option (list nat)) * option nat * outcome * bool",
    "chk_cog": "list nat * outcome * bool",
}


def make_case(K, cls, desc):
    a, impl = K.run(desc)
    return dict(kind=K.name, cls=cls, desc=desc, abs=a, impl=impl)


def generate(rng, tier, outdir):
    np.random.seed(int(rng.integers(0, 2**31 - 1)))      # generate_cutting_experiments samples from the global state
    w = CaseWriter(outdir, IMPORTS, case_types=CASE_TYPES)
    mult = 2 if tier == "quick" else 24
    q = lambda n: n * mult  # noqa: E731
    known = known_ids()
    for name in ORDER:
        K = KINDS[name]
        for cls, desc in K.gen(rng, q):
            case = make_case(K, cls, desc)
            a, impl = case["abs"], case["impl"]
            docs = K.classes(a)
            group, checker = name, K.checker
            fid = getattr(K, "finding", None)
            if fid in known and a.get("inplace"):
                # listed as a known finding: compare quietly with the model of the CURRENT (unrepaired) loop
                group, checker = f"{name}_current_{fid}", CURRENT[name]
                w.count("known_finding_routed", fid)
            w.add(group, checker, K.emit(a, impl), case, nontrivial=bool(docs) or impl["outcome"] == "ok")
            w.count(f"{name}.class", cls)
            w.count(f"{name}.outcome", impl["outcome"])
            for d in docs:
                w.count(f"{name}.documented_class_present", d)
            if docs and not impl["unchanged"]:
                w.count("refusal_with_modified_argument", name)
            # the generator's intention and the independent classification must agree
            intended_clean = cls.startswith("valid") or cls.startswith("undoc")
            w.contract("generator_class_is_documented_class", intended_clean == (not docs))
            # judge must accept every case of an unchanged tree.  A flagged case is excused only when the harness
            # itself sees the implementation deviate on an input the GENERATOR made invalid on purpose
            # (ValueError missing or an argument modified): that is a finding, reported through the model comparison.
            v = judge(case)
            harness_found = (not intended_clean) and (impl["outcome"] != "refused" or not impl["unchanged"])
            w.contract("judge_accepts_clean_case", (not v["violates"]) or harness_found)
            if v["violates"]:
                w.count("judge_flagged", name)
        if name == "reconstruct":
            for ok in K.contract_log:
                w.contract("observable_groups_are_qubitwise_commuting_partition", ok)
            del K.contract_log[:]
    return w.finish(
        rule="per entry point: random otherwise-valid inputs (circuits on 1-5 qubits, 1-3 partition labels from a pool of hashables, "
             "1-4 observables, random budgets/limits incl. NaN and +-inf) with ONE offending element of a documented class at a random "
             "position, plus valid controls and a few undocumented neighbours (IndexError, non-dict circuits, NaN width). The real "
             "function is called with deep before/after snapshots of every argument. distinct = distinct Coq case literal; "
             "non-trivial = a documented class is present or the call returned a value")


def judge(case):
    K = KINDS[case["kind"]]
    docs = K.classes(case["abs"])
    impl = case["impl"]
    if not docs:
        return dict(violates=False, detail=f"not a documented invalid input (class {case['cls']}); property silent; observed {impl['outcome']}")
    bad = []
    if impl["outcome"] != "refused":
        bad.append(f"documented invalid input ({', '.join(docs)}) was answered with {impl['outcome']} ({impl.get('detail')}) instead of ValueError")
    if not impl["unchanged"]:
        bad.append(f"documented invalid input ({', '.join(docs)}): ValueError raised but an argument was modified: {impl.get('changed')}")
    return dict(violates=bool(bad), detail="; ".join(bad) or f"refused with ValueError, arguments unchanged ({', '.join(docs)})")


def rerun(case):
    K = KINDS[case["kind"]]
    a, impl = K.run(case["desc"])
    case["abs"], case["impl"] = a, impl
    return case


WITNESS = {
    # decompose_qpd_instructions(qc, [[0],[1]], [0, 9], inplace=True)
    "F7": dict(kind="decompose", cls="map_index_range",
               desc=dict(nq=3, items=[["q2", 0, None, [0, 1]], ["q2", 0, None, [1, 2]]], ids=[[0], [1]], maps=[0, 9], inplace=True)),
    # partition_circuit_qubits(cx(0,1); ccx(0,1,2), "ABC", inplace=True)
    "F12": dict(kind="pcq", cls="wide_gate",
                desc=dict(nq=3, items=[["g2", "cx", [0, 1]], ["g3", "ccx", [0, 1, 2]]],
                          labels=[["str", "A"], ["str", "B"], ["str", "C"]], inplace=True)),
    # cut_gates(cx(0,1); rzz(Parameter)(1,2), [0, 1], inplace=True)
    "F13": dict(kind="cut_gates", cls="unbound",
                desc=dict(nq=3, items=[["g2", "cx", [0, 1]], ["p2", "rzz", None, [1, 2]]], ids=[0, 1], clbits=None, inplace=True)),
}


def witness(name):
    w = WITNESS[name]
    case = rerun(dict(kind=w["kind"], cls=w["cls"], desc=json.loads(json.dumps(w["desc"]))))
    v = judge(case)
    return dict(fails=bool(v["violates"]), detail=v["detail"], canonical_input=w["desc"])

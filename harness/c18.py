"""C18 correspondence: the argument validation of every public entry point  vs  Model/Validation.v.

Every case (JSON):
  kind  : entry point (key of KINDS)
  cls   : the class the generator intended ("valid", a documented error class, or "undoc:*")
  desc  : enough to rebuild the real arguments (`rerun`)
  abs   : the input abstraction the model reads (computed from the REAL argument objects)
  impl  : {outcome: ok|refused|crashed, detail, unchanged: bool, final: observed state of the mutable
           argument (three inplace entry points), changed: short description of the first difference}
`judge` re-derives from `abs`, with plain Python predicates written from the property text (order
insensitive, independent of the Coq model), whether the input is one of the documented invalid
inputs; if so the call must have raised ValueError and left every argument unchanged.
"""
from __future__ import annotations

import json
import math
import os
from fractions import Fraction

import numpy as np
from qiskit.circuit import (QuantumCircuit, QuantumRegister, ClassicalRegister, Clbit, Qubit, Parameter, Gate,
                            Instruction, CircuitInstruction)
from qiskit.circuit.library import (HGate, XGate, SGate, TGate, SXGate, ZGate, CXGate, CZGate, SwapGate, ECRGate, CHGate,
                                    iSwapGate, RZZGate, RXXGate, RYYGate, CRXGate, CRYGate, CRZGate, CPhaseGate, RZXGate,
                                    CCXGate, CSwapGate, Measure, Reset, Barrier)
from qiskit.quantum_info import Pauli, PauliList
from qiskit.primitives import SamplerResult, PrimitiveResult
from qiskit.result import QuasiDistribution

from qiskit_addon_cutting import (partition_circuit_qubits, cut_gates, partition_problem, generate_cutting_experiments,
                                  reconstruct_expectation_values, find_cuts, OptimizationParameters, DeviceConstraints,
                                  expand_observables)
from qiskit_addon_cutting.instructions import Move
from qiskit_addon_cutting.qpd import (QPDBasis, TwoQubitQPDGate, SingleQubitQPDGate, BaseQPDGate, WeightType,
                                      generate_qpd_weights, decompose_qpd_instructions)
from qiskit_addon_cutting.qpd.instructions import QPDMeasure
from qiskit_addon_cutting.qpd.decompositions import _qpdbasis_from_instruction_funcs, _theta_from_instruction
from qiskit_addon_cutting.qpd.weights import _generate_qpd_weights
from qiskit_addon_cutting.cut_finding.optimization_settings import OptimizationSettings
from qiskit_addon_cutting.utils.transforms import separate_circuit
from qiskit_addon_cutting.utils.simulation import simulate_statevector_outcomes
from qiskit_addon_cutting.utils.observable_grouping import (most_general_observable, CommutingObservableGroup,
                                                            ObservableCollection)

from common import CaseWriter, Raw, Interner, call_canon, coq, tagged, untag
from circ import CircCtx, circuit_registers

IMPORTS = ("From Coq Require Import QArith.\n"
           "From CKT Require Import Common.Base Model.Validation Corr.C18Corr.\nClose Scope Q_scope.")

ROOT = os.path.dirname(os.path.dirname(os.path.abspath(__file__)))


def known_ids():
    """Finding ids listed as status 'known' for C18 in KNOWN_FINDINGS.json (read-only lookup)."""
    try:
        kf = json.load(open(os.path.join(ROOT, "KNOWN_FINDINGS.json")))
    except Exception:  # noqa: BLE001
        return set()
    return {e.get("id") for e in kf.get("findings", []) if e.get("property") == "C18" and e.get("status") == "known"}


# --------------------------------------------------------------------------------------
# deep snapshots of arguments
# --------------------------------------------------------------------------------------

def snap(x, ctx):
    if isinstance(x, QuantumCircuit):
        data = ctx.canon_circuit(x)
        return ["qc", circuit_registers(x), data,
                [[repr(complex(c)) for c in b.coeffs] for b in ctx.bases], ctx.canon_benv(), repr(x.global_phase)]
    if isinstance(x, PauliList):
        return ["pl", [str(p) for p in x]]
    if isinstance(x, Pauli):
        return ["p", str(x)]
    if isinstance(x, QPDBasis):
        return ["basis", ctx.canon_basis(x), [repr(complex(c)) for c in x.coeffs]]
    if isinstance(x, BaseQPDGate):
        return ["qpdgate", ctx.canon_op(x), [repr(complex(c)) for c in x.basis.coeffs]]
    if isinstance(x, Instruction):
        return ["inst", ctx.canon_op(x)]
    if isinstance(x, SamplerResult):
        return ["sr", [sorted((int(k), float(v)) for k, v in qd.items()) for qd in x.quasi_dists], repr(x.metadata)]
    if isinstance(x, PrimitiveResult):
        return ["prim", len(x)]
    if isinstance(x, dict):
        return ["dict", [[tagged(k), snap(v, ctx)] for k, v in x.items()]]
    if isinstance(x, (list, tuple)):
        return [type(x).__name__, [snap(v, ctx) for v in x]]
    if isinstance(x, (OptimizationParameters, DeviceConstraints, OptimizationSettings, CommutingObservableGroup)):
        return ["dc", repr(x)]
    if isinstance(x, np.ndarray):
        return ["nd", x.tolist()]
    return ["v", repr(x)]


def first_diff(a, b, path=""):
    if type(a) is not type(b):
        return f"{path}: type"
    if isinstance(a, list):
        if len(a) != len(b):
            return f"{path}: length {len(a)} -> {len(b)}"
        for i, (x, y) in enumerate(zip(a, b)):
            d = first_diff(x, y, f"{path}[{i}]")
            if d:
                return d
        return None
    if isinstance(a, dict):
        for k in a:
            d = first_diff(a[k], b.get(k), f"{path}.{k}")
            if d:
                return d
        return None
    return None if a == b else f"{path}: {a!r} -> {b!r}"


def observe(f, args, kwargs=None, state=None):
    """Call f(*args, **kwargs) with deep snapshots of every argument before/after.
    state: optional function () -> JSON giving the observed state of a mutable argument afterwards."""
    kwargs = kwargs or {}
    ctx = CircCtx()
    allargs = list(args) + [kwargs[k] for k in sorted(kwargs)]
    before = [snap(a, ctx) for a in allargs]
    r = call_canon(f, *args, **kwargs)
    after = [snap(a, ctx) for a in allargs]
    d = first_diff(before, after, "args")
    impl = dict(outcome=r[0], detail=None if r[0] == "ok" else r[1], unchanged=(d is None), changed=d)
    if state is not None:
        impl["final"] = state()
    return impl


# --------------------------------------------------------------------------------------
# Coq literals
# --------------------------------------------------------------------------------------

def c_out(o):
    return Raw({"ok": "(Ok tt)", "refused": "Refused", "crashed": "Crashed"}[o])


def c_budget(b):
    k = b[0]
    if k == "num":
        return Raw(f"(BNum (Qmake ({b[1][0]})%Z ({b[1][1]})%positive))")
    return Raw({"nan": "BNaN", "inf": "BInf", "-inf": "BNegInf"}[k])


def c_optbudget(b):
    return Raw("None") if b is None else Raw(f"(Some {c_budget(b).s})")


def c_z(v):
    return Raw(f"({int(v)})%Z")


def c_optz(v):
    return Raw("None") if v is None else Raw(f"(Some ({int(v)})%Z)")


def c_optn(v):
    return Raw("None") if v is None else Raw(f"(Some {int(v)})")


def c_desc(d):
    return Raw("(G " + " ".join("true" if x else "false" for x in d) + ")")


def c_ginst(g):
    k = {"barrier": "KBarrier", "qpd2": "KQpd2"}.get(g["kind"]) or f"(KOp {c_desc(g['desc']).s})"
    return Raw(f"(mkG {k} {coq(list(g['qs']))})")


def c_labels(ls):
    return [c_optn(l) for l in ls]


def budget_value(b):
    """budget JSON -> Python number"""
    k = b[0]
    if k == "num":
        fr = Fraction(b[1][0], b[1][1])
        return int(fr) if fr.denominator == 1 and len(b) < 3 else float(fr)
    return {"nan": float("nan"), "inf": float("inf"), "-inf": float("-inf")}[k]


def num(n, d=1, as_float=False):
    fr = Fraction(n, d)
    out = ["num", [fr.numerator, fr.denominator]]
    if as_float:
        out.append("float")
    return out


def b_lt(b, k):
    if b[0] == "num":
        return Fraction(b[1][0], b[1][1]) < k
    return b[0] == "-inf"


def b_ge(b, k):
    if b[0] == "num":
        return Fraction(b[1][0], b[1][1]) >= k
    return b[0] == "inf"


# --------------------------------------------------------------------------------------
# circuits from item lists
# --------------------------------------------------------------------------------------
G1 = {"h": HGate, "x": XGate, "s": SGate, "t": TGate, "sx": SXGate, "z": ZGate}
G2 = {"cx": CXGate, "cz": CZGate, "swap": SwapGate, "ecr": ECRGate, "ch": CHGate, "iswap": iSwapGate}
P2 = {"rzz": RZZGate, "rxx": RXXGate, "ryy": RYYGate, "crx": CRXGate, "cry": CRYGate, "crz": CRZGate, "cp": CPhaseGate}
G3 = {"ccx": CCXGate, "cswap": CSwapGate}
PARAM_GATES = set(P2)


def inst2():
    """a two-qubit Instruction that is not a Gate (unsupported by QPDBasis.from_instruction)"""
    q = QuantumCircuit(2, name="blk")
    q.cx(0, 1)
    q.reset(0)
    return q.to_instruction()


def make_op(it):
    k = it[0]
    if k == "g1":
        return G1[it[1]]()
    if k == "g2":
        return G2[it[1]]()
    if k == "p2":
        return P2[it[1]](Parameter("th") if it[2] is None else it[2][0] / it[2][1])
    if k == "u2":  # unregistered two-qubit gate (KAK path)
        return RZXGate(Parameter("th") if it[1] is None else it[1][0] / it[1][1])
    if k == "g3":
        return G3[it[1]]()
    if k == "inst2":
        return inst2()
    if k == "barrier":
        return Barrier(len(it[-1]))
    if k == "qpd2":
        base = {"cx": CXGate(), "cz": CZGate(), "rzz": RZZGate(0.5), "move": Move()}[it[1]]
        return TwoQubitQPDGate(QPDBasis.from_instruction(base), label=it[2])
    if k == "measure":
        return Measure()
    if k == "reset":
        return Reset()
    raise ValueError(it)


def build_circuit(nq, items, clbits=None):
    qc = QuantumCircuit(nq)
    if clbits == "creg":
        qc.add_register(ClassicalRegister(1, "c"))
    elif clbits == "creg2":
        qc.add_register(ClassicalRegister(2, "c"))
    elif clbits == "loose":
        qc.add_bits([Clbit()])
    elif clbits == "empty_creg":
        qc.add_register(ClassicalRegister(0, "e"))
    for it in items:
        qc.append(make_op(it), it[-1])
    return qc


def gate_desc(op):
    registered = op.name in _qpdbasis_from_instruction_funcs
    param = op.name in PARAM_GATES
    bound = True
    if param:
        try:
            float(op.params[0])
        except TypeError:
            bound = False
    gate2 = isinstance(op, Gate) and op.num_qubits == 2
    matrix = True
    if gate2 and not registered:
        try:
            op.to_matrix()
        except Exception:  # noqa: BLE001
            matrix = False
    return [registered, param, bound, gate2, matrix]


def desc_refuses(d):
    """plain restatement of the documented from_instruction refusals: unbound parameters / unsupported"""
    registered, param, bound, gate2, matrix = d
    if registered:
        return param and not bound
    if gate2:
        return not matrix
    return True


def abs_insts(qc):
    out = []
    for inst in qc.data:
        op = inst.operation
        qs = [qc.find_bit(q).index for q in inst.qubits]
        if op.name == "barrier":
            out.append(dict(kind="barrier", qs=qs))
        elif isinstance(op, TwoQubitQPDGate):
            out.append(dict(kind="qpd2", qs=qs))
        else:
            out.append(dict(kind="op", desc=gate_desc(op), qs=qs))
    return out


def intern_labels(labels):
    it = Interner()
    return [None if l is None else it(l) for l in labels]


LABEL_POOL = ["A", "B", "C", 0, 1, (1, "x")]


def rand_labels(rng, nq, nl=None):
    nl = nl or int(rng.integers(1, min(3, nq) + 1))
    pool = [LABEL_POOL[i] for i in rng.permutation(len(LABEL_POOL))[:nl]]
    labels = [pool[int(rng.integers(0, nl))] for _ in range(nq)]
    return labels


def rand_items(rng, nq, labels=None, n=None, allow_wide_local=True):
    """random instruction list that is VALID for partitioning along `labels` (None: anything supported):
    supported 1q/2q gates anywhere, barriers anywhere, 3-qubit and unsupported 2-qubit operations only
    inside one partition."""
    n = int(rng.integers(1, 7)) if n is None else n
    items = []
    same = (lambda qs: len({labels[q] for q in qs}) == 1) if labels is not None else (lambda qs: False)
    for _ in range(n):
        r = int(rng.integers(0, 12))
        if r < 3 or nq == 1:
            items.append(["g1", list(G1)[int(rng.integers(0, len(G1)))], [int(rng.integers(0, nq))]])
            continue
        a, b = (int(x) for x in rng.permutation(nq)[:2])
        if r < 6:
            items.append(["g2", list(G2)[int(rng.integers(0, len(G2)))], [a, b]])
        elif r < 8:
            items.append(["p2", list(P2)[int(rng.integers(0, len(P2)))], [int(rng.integers(1, 8)), 8], [a, b]])
        elif r == 8:
            items.append(["u2", [int(rng.integers(1, 8)), 8], [a, b]])
        elif r == 9:
            qs = [int(x) for x in rng.permutation(nq)[: int(rng.integers(1, nq + 1))]]
            items.append(["barrier", qs])
        elif r == 10 and nq >= 3 and allow_wide_local:
            qs = [int(x) for x in rng.permutation(nq)[:3]]
            if same(qs):
                items.append(["g3", "ccx" if rng.integers(0, 2) else "cswap", qs])
            else:
                items.append(["g1", "h", [qs[0]]])
        else:
            if same([a, b]) and allow_wide_local:
                items.append(["inst2", [a, b]] if rng.integers(0, 2) else ["p2", "rzz", None, [a, b]])
            else:
                items.append(["g2", "cx", [a, b]])
    return items


def spanning_pair(rng, labels, k=2):
    """k distinct qubits spanning more than one label, or None"""
    nq = len(labels)
    for _ in range(30):
        if nq < k:
            return None
        qs = [int(x) for x in rng.permutation(nq)[:k]]
        if len({labels[q] for q in qs}) > 1:
            return qs
    return None


def offending_item(rng, cls, qs):
    if cls == "wide_gate":
        return ["g3", "ccx" if rng.integers(0, 2) else "cswap", qs]
    if cls == "unbound":
        return ["p2", list(P2)[int(rng.integers(0, len(P2)))], None, qs] if rng.integers(0, 3) else ["u2", None, qs]
    if cls == "unsupported":
        return ["inst2", qs]
    raise ValueError(cls)


def insert_random(rng, items, it):
    pos = int(rng.integers(0, len(items) + 1))
    return items[:pos] + [it] + items[pos:], pos


KINDS = {}


def kind(name):
    def deco(cls):
        KINDS[name] = cls()
        KINDS[name].name = name
        return cls
    return deco

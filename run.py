#!/usr/bin/env python3
"""Entry point of the CKT verification machinery.

    python3 run.py --setup                       build everything (MANIFEST.setup_cmd)
    python3 run.py C17 [--tier quick|thorough]   decide one property (MANIFEST quick/thorough cmd)
    python3 run.py C17 --replay replays/x.json   re-run implementation + oracle on a stored input

Exit 0: property held on everything explored.  Exit 1 + a line
    VIOLATION property=<id> replay=<path> [no-failing-input-found]
otherwise.  Stdlib only; everything touching /repo runs under /venv/bin/python.
"""
from __future__ import annotations

import argparse
import fcntl
import glob
import json
import os
import re
import shutil
import subprocess
import sys
import time
from concurrent.futures import ThreadPoolExecutor

ROOT = os.path.dirname(os.path.abspath(__file__))
COQ = os.path.join(ROOT, "coq")
TH = os.path.join(COQ, "theories")
REPO = os.environ.get("CKT_REPO", "/repo")
VENV_PY = "/venv/bin/python"
TAG = os.environ.get("CKT_TAG", "")  # non-empty: scratch run (seeded-change test); build tree, evidence, replays, cases go elsewhere
if TAG:
    # isolated copy of the Coq tree (with compiled files, mtimes preserved) so that a scratch run against another
    # checkout cannot disturb, or be disturbed by, runs in /verif/coq (Facts.v differs between checkouts)
    _SRC_COQ = COQ
    COQ = f"/tmp/ckt_scratch_{TAG}/coq"
    TH = os.path.join(COQ, "theories")
EVID_DIR = os.path.join(ROOT, "evidence") if not TAG else f"/tmp/ckt_scratch_{TAG}/evidence"
REPLAY_DIR = os.path.join(ROOT, "replays") if not TAG else f"/tmp/ckt_scratch_{TAG}/replays"
sys.path.insert(0, os.path.join(ROOT, "lib"))
from props import PROPS, GUARD_ENV  # noqa: E402

FORBIDDEN = re.compile(
    r"\b(Admitted|admit|Axiom|Axioms|Parameter|Parameters|Conjecture|Conjectures|Hypothesis|Hypotheses|Variable|Variables|Abort All)\b"
    r"|Unset\s+Guard|bypass_check|Unset\s+Positivity|Unset\s+Universe|type-in-type|impredicative-set|Admit Obligations|native_compute"
)
# Hypothesis/Variable are allowed only inside a Section (checked separately).
SECTION_ONLY = re.compile(r"^\s*(Hypothesis|Hypotheses|Variable|Variables|Context)\b")


def sh(cmd, timeout=None, cwd=None, env=None):
    e = dict(os.environ)
    if env:
        e.update(env)
    try:
        p = subprocess.run(cmd, shell=isinstance(cmd, str), cwd=cwd, env=e, timeout=timeout,
                           stdout=subprocess.PIPE, stderr=subprocess.STDOUT, text=True)
        return p.returncode, p.stdout
    except subprocess.TimeoutExpired as ex:
        out = ex.stdout.decode() if isinstance(ex.stdout, bytes) else (ex.stdout or "")
        return 124, out + "\n<<TIMEOUT>>"


class Lock:
    def __init__(self, where=None):
        self.where = where or os.path.dirname(COQ)

    def __enter__(self):
        self.f = open(os.path.join(self.where, ".lock"), "w")
        fcntl.flock(self.f, fcntl.LOCK_EX)
        return self

    def __exit__(self, *a):
        fcntl.flock(self.f, fcntl.LOCK_UN)
        self.f.close()


# ------------------------------------------------------------------------------------
# build
# ------------------------------------------------------------------------------------

def regenerate_facts():
    rc, out = sh(["python3", os.path.join(ROOT, "tools", "extract_facts.py"),
                  os.path.join(TH, "Extracted", "Facts.v"), os.path.join(COQ, "facts.json")],
                 timeout=120, env={"CKT_REPO": REPO})
    info = {}
    try:
        info = json.load(open(os.path.join(COQ, "facts.json")))
    except Exception:  # noqa: BLE001
        pass
    return rc, out, info


def ensure_makefile():
    files = sorted(os.path.relpath(f, COQ) for f in glob.glob(os.path.join(TH, "**", "*.v"), recursive=True))
    head = "-Q theories CKT\n-arg -w -arg -notation-overridden,-deprecated-hint-without-locality,-deprecated-instance-without-locality,-deprecated-syntactic-definition\n"
    text = head + "\n".join(files) + "\n"
    cp = os.path.join(COQ, "_CoqProject")
    old = open(cp).read() if os.path.exists(cp) else None
    if old != text or not os.path.exists(os.path.join(COQ, "Makefile")):
        open(cp, "w").write(text)
        rc, out = sh("coq_makefile -f _CoqProject -o Makefile", cwd=COQ, timeout=120)
        if rc != 0:
            raise RuntimeError("coq_makefile failed: " + out)


def make(targets, jobs=16, timeout=1500):
    cmd = ["make", f"-j{jobs}", "-k"] + targets
    return sh(cmd, cwd=COQ, timeout=timeout)


def dep_graph():
    files = sorted(glob.glob(os.path.join(TH, "**", "*.v"), recursive=True))
    rc, out = sh(["coqdep", "-Q", "theories", "CKT"] + [os.path.relpath(f, COQ) for f in files], cwd=COQ, timeout=120)
    g = {}
    for line in out.splitlines():
        if ":" not in line:
            continue
        lhs, rhs = line.split(":", 1)
        tgt = [t for t in lhs.split() if t.endswith(".vo")]
        if not tgt:
            continue
        src = tgt[0][:-1]
        deps = [d[:-1] for d in rhs.split() if d.endswith(".vo") and d.startswith("theories/")]
        g[src] = deps
    return g


def cone(g, roots):
    seen = set()
    stack = list(roots)
    while stack:
        x = stack.pop()
        if x in seen:
            continue
        seen.add(x)
        stack.extend(g.get(x, []))
    return sorted(seen)


def strip_comments(text):
    out = []
    depth = 0
    i = 0
    while i < len(text):
        if text.startswith("(*", i):
            depth += 1
            i += 2
        elif text.startswith("*)", i) and depth > 0:
            depth -= 1
            i += 2
        else:
            if depth == 0:
                out.append(text[i])
            elif text[i] == "\n":
                out.append("\n")
            i += 1
    return "".join(out)


def hygiene(files):
    """No Admitted/admit/Axiom/Parameter/... ; Variable/Hypothesis/Context only inside Sections."""
    problems = []
    nqed = 0
    for rel in files:
        path = os.path.join(COQ, rel)
        try:
            text = strip_comments(open(path).read())
        except FileNotFoundError:
            problems.append(f"{rel}: missing")
            continue
        # strings may contain words; drop string literals
        text_ns = re.sub(r'"(?:[^"]|"")*"', '""', text)
        depth = 0
        for ln, line in enumerate(text_ns.splitlines(), 1):
            if re.match(r"^\s*Section\b", line):
                depth += 1
            m = FORBIDDEN.search(line)
            if m:
                word = m.group(0)
                if word in ("Hypothesis", "Hypotheses", "Variable", "Variables") and depth > 0:
                    pass
                else:
                    problems.append(f"{rel}:{ln}: forbidden `{word}`")
            if SECTION_ONLY.match(line) and depth == 0:
                problems.append(f"{rel}:{ln}: section-only declaration outside a Section")
            if re.match(r"^\s*End\b", line) and depth > 0:
                depth -= 1
        nqed += len(re.findall(r"\bQed\.", text_ns)) + len(re.findall(r"\bDefined\.", text_ns))
    return problems, nqed


def print_assumptions(pid, cfg):
    os.makedirs(os.path.join(COQ, "tmp"), exist_ok=True)
    mod = cfg["prop_file"][:-2].replace("/", ".")
    path = os.path.join(COQ, "tmp", f"assump_{pid}.v")
    with open(path, "w") as f:
        f.write(f"From CKT Require Import {mod}.\n")
        for t in cfg["theorems"]:
            f.write(f'Goal True. idtac "@@THEOREM {t}". exact I. Qed.\nPrint Assumptions {t}.\n')
    rc, out = sh(["coqc", "-Q", "theories", "CKT", os.path.relpath(path, COQ)], cwd=COQ, timeout=600)
    res = {}
    cur = None
    for line in out.splitlines():
        m = re.match(r"^@@THEOREM (\S+)", line)
        if m:
            cur = m.group(1)
            res[cur] = []
            continue
        if cur is None:
            continue
        if line.startswith("Closed under the global context") or line.startswith("Axioms:"):
            continue
        # an axiom entry starts at column 0 with its qualified name; its type may start on the next (indented) line
        m = re.match(r"^([A-Za-z_][\w.']*)\s*(:|$)", line)
        if m:
            res[cur].append(m.group(1))
    missing = [t for t in cfg["theorems"] if t not in res]
    return rc, out, res, missing


# ------------------------------------------------------------------------------------
# correspondence
# ------------------------------------------------------------------------------------

def harness_env():
    return {"PYTHONPATH": REPO, "PYTHONHASHSEED": "0", GUARD_ENV: "1", "CKT_REPO": REPO,
            "OMP_NUM_THREADS": "1", "OPENBLAS_NUM_THREADS": "1", "RAYON_NUM_THREADS": "1"}


def run_harness(pid, cfg, seed, tier, outdir):
    if os.path.isdir(outdir):
        shutil.rmtree(outdir)
    os.makedirs(outdir)
    rc, out = sh([VENV_PY, os.path.join(ROOT, "harness", "driver.py"), "gen", cfg["harness"],
                  "--seed", str(seed), "--tier", tier, "--out", outdir],
                 timeout=cfg.get("harness_timeout", 1500 if tier == "quick" else 7200), env=harness_env(), cwd=os.path.join(ROOT, "harness"))
    meta = None
    mp = os.path.join(outdir, "meta.json")
    if os.path.exists(mp):
        meta = json.load(open(mp))
    return rc, out, meta


TALLY = re.compile(r"=\s*\(\s*(\d+)\s*,\s*(\d+)\s*,\s*(None|Some\s+(\d+))\s*\)")


def compile_case(outdir, finfo):
    rel = os.path.relpath(os.path.join(outdir, finfo["file"]), COQ)
    rc, out = sh(f"ulimit -s unlimited 2>/dev/null; coqc -Q theories CKT {rel}", cwd=COQ, timeout=900)
    m = TALLY.search(out.replace("\n", " "))
    if rc != 0 or not m:
        return dict(finfo, ok=False, error=out[-2000:], n_checked=0, mismatches=finfo["n"], first=None)
    n, bad, first = int(m.group(1)), int(m.group(2)), (int(m.group(4)) if m.group(4) else None)
    return dict(finfo, ok=True, n_checked=n, mismatches=bad, first=first)


def all_false_indices(outdir, finfo):
    """Second coqc pass listing every mismatching index of one shard."""
    src = open(os.path.join(outdir, finfo["file"])).read()
    src = re.sub(r"Eval vm_compute in tally \(map (\S+) cs\)\.",
                 r"Eval vm_compute in (fix idx (i : nat) (l : list bool) : list nat := match l with [] => [] | b :: r => if b then idx (S i) r else i :: idx (S i) r end) 0 (map \1 cs).", src)
    p = os.path.join(outdir, "idx_" + finfo["file"])
    open(p, "w").write("Set Printing Width 100000. Set Printing Depth 100000.\n" + src)
    rc, out = sh(f"ulimit -s unlimited 2>/dev/null; coqc -Q theories CKT {os.path.relpath(p, COQ)}", cwd=COQ, timeout=900)
    m = re.search(r"=\s*\[([^\]]*)\]", out.replace("\n", " "))
    if not m:
        return [finfo.get("first")] if finfo.get("first") is not None else []
    return [int(x) for x in m.group(1).split(";") if x.strip()]


def judge_case(cfg, outdir, finfo, idx, replay_path):
    rc, out = sh([VENV_PY, os.path.join(ROOT, "harness", "driver.py"), "judge", cfg["harness"],
                  "--cases", os.path.join(outdir, finfo["json"]), "--index", str(idx), "--out", replay_path],
                 timeout=900, env=harness_env(), cwd=os.path.join(ROOT, "harness"))
    try:
        return json.loads(out.strip().splitlines()[-1])
    except Exception:  # noqa: BLE001
        return dict(violates=None, detail="judge failed: " + out[-500:])


def known_findings(pid):
    try:
        kf = json.load(open(os.path.join(ROOT, "KNOWN_FINDINGS.json")))
    except FileNotFoundError:
        return []
    return [e for e in kf.get("findings", []) if e.get("property") == pid]


def run_witness(cfg, entry):
    rc, out = sh([VENV_PY, os.path.join(ROOT, "harness", "driver.py"), "witness", entry.get("harness", cfg["harness"]),
                  "--name", entry["id"]], timeout=900, env=harness_env(), cwd=os.path.join(ROOT, "harness"))
    try:
        return json.loads(out.strip().splitlines()[-1])
    except Exception:  # noqa: BLE001
        return dict(fails=None, detail="witness run failed: " + out[-500:])


# ------------------------------------------------------------------------------------
# main check
# ------------------------------------------------------------------------------------

def write_evidence(pid, ev):
    os.makedirs(EVID_DIR, exist_ok=True)
    with open(os.path.join(EVID_DIR, f"{pid}.json"), "w") as f:
        json.dump(ev, f, indent=1, default=str)
    if ev.get("tier") == "thorough":
        # keep the last thorough-tier evidence beside the per-run file (which the next quick run overwrites)
        os.makedirs(os.path.join(EVID_DIR, "thorough"), exist_ok=True)
        with open(os.path.join(EVID_DIR, "thorough", f"{pid}.json"), "w") as f:
            json.dump(ev, f, indent=1, default=str)


def check(pid, tier, seed):
    t0 = time.time()
    cfg = PROPS[pid]
    log = []
    violations = []  # (replay_path, suffix)
    replay_dir = REPLAY_DIR
    os.makedirs(replay_dir, exist_ok=True)

    def broken(kind, name, detail, case=None):
        path = os.path.join(replay_dir, f"{pid}-{seed}-{len(violations)}.json")
        json.dump(dict(property=pid, kind=kind, theorem_or_correspondence=name, detail=detail,
                       canonical_input=case, seed=seed, tier=tier,
                       how_to_run=f"python3 run.py {pid} --replay {os.path.relpath(path, ROOT)}"),
                  open(path, "w"), indent=1, default=str)
        return path

    build_broken = []
    _lk = Lock()
    _lk.__enter__()
    try:
        rc, out, finfo = regenerate_facts()
        if rc != 0:
            build_broken.append(("facts", "tools/extract_facts.py", out[-1500:]))
        fact_fail = (finfo or {}).get("failures", {})
        used_facts = cfg.get("facts", [])
        for f in used_facts:
            if f in fact_fail:
                build_broken.append(("facts", f"fact {f}", "AST shape not recognised: " + fact_fail[f]))
        ensure_makefile()
        targets = ["theories/" + cfg["prop_file"] + "o"] + ["theories/" + c + "o" for c in cfg.get("corr_files", [])]
        if tier == "thorough" and os.environ.get("CKT_NO_CLEAN") != "1":
            # thorough: rebuild the dependency cone from scratch
            g0 = dep_graph()
            for rel in cone(g0, [t[:-1] for t in targets]):
                for ext in ("o", "ok", "os"):
                    try:
                        os.remove(os.path.join(COQ, rel + ext))
                    except FileNotFoundError:
                        pass
        rc, mout = make(targets, timeout=3000)

        def _clean_cone():
            g1 = dep_graph()
            for rel in cone(g1, [t[:-1] for t in targets]):
                for ext in ("o", "ok", "os"):
                    try:
                        os.remove(os.path.join(COQ, rel + ext))
                    except FileNotFoundError:
                        pass

        if "inconsistent assumptions" in mout:
            # stale .vo files (compiled against an older Facts.vo but with newer timestamps): rebuild the cone once
            _clean_cone()
            rc, mout = make(targets, timeout=3000)
        g = dep_graph()
        cone_files = cone(g, ["theories/" + cfg["prop_file"]])
        corr_cone = cone(g, ["theories/" + c for c in cfg.get("corr_files", [])])
        prop_vo = os.path.join(COQ, "theories", cfg["prop_file"] + "o")
        prop_built = os.path.exists(prop_vo) and all(
            os.path.getmtime(prop_vo) >= os.path.getmtime(os.path.join(COQ, f)) for f in cone_files if os.path.exists(os.path.join(COQ, f)))
        def _fresh(vo, deps):
            return os.path.exists(vo) and all(os.path.getmtime(vo) >= os.path.getmtime(os.path.join(COQ, f)) for f in deps if os.path.exists(os.path.join(COQ, f)))
        corr_built = all(_fresh(os.path.join(COQ, "theories", c + "o"), cone(g, ["theories/" + c])) for c in cfg.get("corr_files", []))
        if not prop_built:
            m = re.findall(r'File "\./([^"]+)", line (\d+)[^\n]*\n(?:[^\n]*\n){0,6}?Error:[^\n]*(?:\n[^\n]+){0,8}', mout)
            errs = re.findall(r'(File "[^"]+", line \d+, characters [\d-]+:\nError:(?:\n?[^\n]+){1,10})', mout)
            build_broken.append(("proof", cfg["prop_file"], (errs[0] if errs else mout[-2500:])))
        hyg, nqed = hygiene(sorted(set(cone_files) | set(corr_cone)))
        for h in hyg:
            build_broken.append(("hygiene", h, h))
        assump = {}
        axioms_seen = set()
        if prop_built:
            rc, aout, assump, missing = print_assumptions(pid, cfg)
            if "inconsistent assumptions" in aout:
                _clean_cone()
                rc, mout = make(targets, timeout=3000)
                rc, aout, assump, missing = print_assumptions(pid, cfg)
            if rc != 0 or missing:
                build_broken.append(("proof", "Print Assumptions", f"missing={missing}\n{aout[-1500:]}"))
            allowed = set(cfg.get("allowed_axioms", []))
            for t, axs in assump.items():
                for a in axs:
                    axioms_seen.add(a)
                    if a not in allowed:
                        build_broken.append(("axiom", t, f"theorem {t} depends on non-allowed axiom {a}"))
        coqchk_out = None
        if tier == "thorough" and prop_built and cfg.get("coqchk", True):
            mod = "CKT." + cfg["prop_file"][:-2].replace("/", ".")
            rc, coqchk_out = sh(["coqchk", "-silent", "-o", "-Q", "theories", "CKT", mod], cwd=COQ, timeout=3000)
            if rc != 0:
                build_broken.append(("proof", "coqchk", coqchk_out[-1500:]))
    finally:
        _lk.__exit__()

    # ---------------- correspondence ----------------
    meta = None
    shard_results = []
    mismatches = []
    corr_error = None
    outdir = os.path.join(COQ, "cases", pid + TAG)
    if cfg.get("harness"):
        if not corr_built:
            corr_error = "correspondence checker files did not build:\n" + mout[-2000:]
        else:
            rc, hout, meta = run_harness(pid, cfg, seed, tier, outdir)
            if rc != 0 or meta is None:
                corr_error = "harness failed:\n" + hout[-3000:]
            else:
                with Lock():
                    # another run may have regenerated Facts.v for a different checkout meanwhile: make the
                    # checker files consistent again (a no-op normally) before evaluating the cases
                    regenerate_facts()
                    make(["theories/" + c + "o" for c in cfg.get("corr_files", [])], timeout=3000)
                    with ThreadPoolExecutor(max_workers=int(os.environ.get("CKT_JOBS", "12"))) as ex:
                        shard_results = list(ex.map(lambda fi: compile_case(outdir, fi), meta["files"]))
                    for r in shard_results:
                        if r["ok"] and r["mismatches"]:
                            r["all_idx"] = all_false_indices(outdir, r)[:25]
                for r in shard_results:
                    if not r["ok"]:
                        corr_error = (corr_error or "") + f"case file {r['file']} did not evaluate:\n{r['error']}\n"
                    elif r["mismatches"]:
                        for idx in r.get("all_idx", []):
                            mismatches.append((r, idx))
    # oracle contracts monitored by the harness
    contract_failed = {}
    if meta:
        contract_failed = {k: v for k, v in meta.get("oracle_contract_checks", {}).items() if v.get("failed")}

    # ---------------- verdict ----------------
    judged = 0
    found_input = False
    for (r, idx) in mismatches[:40]:
        rp = os.path.join(replay_dir, f"{pid}-{seed}-m{judged}.json")
        v = judge_case(cfg, outdir, r, idx, rp)
        judged += 1
        try:
            rep = json.load(open(rp))
        except Exception:  # noqa: BLE001
            rep = {}
        rep.update(property=pid, kind="input", correspondence=f"{r['checker']} ({r['group']})", seed=seed, tier=tier,
                   canonical_input=rep.get("case"), how_to_run=f"python3 run.py {pid} --replay {os.path.relpath(rp, ROOT)}")
        json.dump(rep, open(rp, "w"), indent=1, default=str)
        if v.get("violates"):
            violations.append((rp, ""))
            found_input = True
            break
    searched = None
    if not found_input and meta is not None and (build_broken or corr_error or mismatches or contract_failed):
        # search step: the oracle judges the implementation's recorded outputs of all generated cases directly
        rp = os.path.join(replay_dir, f"{pid}-{seed}-s0.json")
        rc, sout = sh([VENV_PY, os.path.join(ROOT, "harness", "driver.py"), "judgeall", cfg["harness"], "--dir", outdir,
                       "--out", rp, "--max", "600"], timeout=1200, env=harness_env(), cwd=os.path.join(ROOT, "harness"))
        try:
            searched = json.loads(sout.strip().splitlines()[-1])
        except Exception:  # noqa: BLE001
            searched = dict(judged=0, found=False, detail="search failed: " + sout[-300:])
        if searched.get("found") and os.path.exists(rp):
            rep = json.load(open(rp))
            rep.update(property=pid, kind="input", correspondence="search over all generated cases (oracle only)", seed=seed, tier=tier,
                       canonical_input=rep.get("case"), how_to_run=f"python3 run.py {pid} --replay {os.path.relpath(rp, ROOT)}")
            json.dump(rep, open(rp, "w"), indent=1, default=str)
            violations.append((rp, ""))
            found_input = True
    if mismatches and not found_input:
        r, idx = mismatches[0]
        case = json.load(open(os.path.join(outdir, r["json"])))[idx]
        p = broken("broken-correspondence", f"{r['checker']} ({r['group']})",
                   f"{len(mismatches)} model/implementation disagreement(s); oracle did not confirm a property failure on {judged} judged case(s)", case)
        violations.append((p, " no-failing-input-found"))
    if corr_error and not violations:
        p = broken("broken-correspondence", cfg.get("harness", "?"), corr_error)
        violations.append((p, " no-failing-input-found"))
    if contract_failed and not violations:
        p = broken("oracle-contract", ",".join(contract_failed), json.dumps(contract_failed))
        violations.append((p, " no-failing-input-found"))
    if build_broken and not found_input:
        # a proof obligation no longer checks; no failing input was produced by the correspondence search
        if not violations:
            kind, name, detail = build_broken[0]
            p = broken("broken-obligation", name, detail + ("\n(also: %d further problems)" % (len(build_broken) - 1) if len(build_broken) > 1 else ""))
            violations.append((p, " no-failing-input-found"))

    # ---------------- known findings ----------------
    kf_lines = []
    for e in known_findings(pid):
        if e.get("status") != "known":
            continue
        w = run_witness(cfg, e)
        if w.get("fails"):
            kf_lines.append(f"KNOWN-FINDING: property={pid} {e['id']} {e['what']}")
        else:
            log.append(f"stale known finding {e['id']}: witness no longer fails ({w.get('detail')})")

    wall = time.time() - t0
    n_shards_ok = sum(1 for r in shard_results if r["ok"])
    trusted = [
        "Coq 8.16.1 kernel (coqc), vm_compute",
        "axioms per Print Assumptions: " + (", ".join(sorted(axioms_seen)) if axioms_seen else "none (closed under the global context)"),
        "tools/extract_facts.py (facts), harness case writers (Python values -> Coq literals)",
    ] + cfg.get("trusted_extra", [])
    ev = dict(
        property_id=pid, tier=tier, seed=seed, level=cfg.get("level", "proof"),
        coverage=dict(
            obligations=nqed, discharged=(nqed if prop_built and not [b for b in build_broken if b[0] in ("proof", "hygiene", "axiom", "facts")] else 0),
            checker_cmd=f"make theories/{cfg['prop_file']}o (full .vo build) ; coqc Print Assumptions on {len(cfg['theorems'])} theorems"
                        + (" ; coqchk -o" if tier == "thorough" else ""),
            trusted_base=trusted,
            theorems=cfg["theorems"],
            assumptions_by_theorem=assump,
            evaluations=(meta or {}).get("evaluations", 0),
            distinct_nontrivial=(meta or {}).get("distinct_nontrivial", 0),
            rule=(meta or {}).get("rule", ""),
            samples=(meta or {}).get("samples", []) or [{"theorems": cfg["theorems"]}],
            histograms=(meta or {}).get("histograms", {}),
            oracle_contract_checks=(meta or {}).get("oracle_contract_checks", {}),
            correspondence_shards=len(shard_results), correspondence_shards_evaluated=n_shards_ok,
            model_impl_mismatches=len(mismatches), mismatches_judged=judged, search_over_all_cases=searched,
            model_drift=[k for k in (finfo or {}).get("ast_hashes", {}) if False],
            known_findings_printed=kf_lines,
            build_problems=[f"{a}: {b}" for a, b, _ in build_broken],
            coqchk=(coqchk_out[-3000:] if coqchk_out else None),
            harness_notes=(meta or {}).get("notes", []),
            extra=(meta or {}).get("extra", {}),
            log=log,
        ),
        assumptions=cfg.get("assumptions", []),
        wall_s=round(wall, 2),
        violations=len(violations),
    )
    write_evidence(pid, ev)
    for line in kf_lines:
        print(line)
    print(f"[{pid}] tier={tier} seed={seed} theorems={len(cfg['theorems'])} qed_in_cone={nqed} built={prop_built} "
          f"cases={(meta or {}).get('evaluations', 0)} mismatches={len(mismatches)} wall={wall:.1f}s")
    for b in build_broken:
        print(f"[{pid}] problem: {b[0]}: {b[1]}")
    if violations:
        for p, suffix in violations:
            print(f"VIOLATION property={pid} replay={os.path.relpath(p, ROOT)}{suffix}")
        return 1
    return 0


def setup():
    with Lock():
        rc, out, info = regenerate_facts()
        print(out.strip())
        ensure_makefile()
        rc, out = make([], timeout=6000)
        print(out[-3000:])
        if rc != 0:
            print("setup: make reported errors (individual checks will report their own status)")
    oc = os.path.join(ROOT, "ocaml", "build.sh")
    if os.path.exists(oc):
        rc, out = sh(["sh", oc], cwd=os.path.join(ROOT, "ocaml"), timeout=1200)
        print(out[-1500:])
    return 0


def replay(pid, path):
    cfg = PROPS[pid]
    rc, out = sh([VENV_PY, os.path.join(ROOT, "harness", "driver.py"), "replay", cfg["harness"], "--file", os.path.abspath(path)],
                 timeout=1800, env=harness_env(), cwd=os.path.join(ROOT, "harness"))
    print(out)
    return rc


def sync_scratch_tree():
    os.makedirs(COQ, exist_ok=True)
    with Lock(ROOT):  # do not copy while a build in /verif/coq is in progress
        subprocess.run(["rsync", "-a", "--delete", "--exclude", "cases/", "--exclude", "tmp/", _SRC_COQ + "/", COQ + "/"], check=True)



def main():
    if TAG:
        sync_scratch_tree()
    ap = argparse.ArgumentParser()
    ap.add_argument("pid", nargs="?")
    ap.add_argument("--tier", default=os.environ.get("VERIF_TIER", "quick"))
    ap.add_argument("--setup", action="store_true")
    ap.add_argument("--replay")
    a = ap.parse_args()
    if a.setup:
        sys.exit(setup())
    if a.pid not in PROPS:
        print(f"unknown property {a.pid}; known: {sorted(PROPS)}")
        sys.exit(2)
    if a.replay:
        sys.exit(replay(a.pid, a.replay))
    seed = int(os.environ.get("VERIF_SEED", "0") or 0)
    tier = a.tier if a.tier in ("quick", "thorough") else "quick"
    sys.exit(check(a.pid, tier, seed))


if __name__ == "__main__":
    main()
